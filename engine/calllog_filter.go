package main

import (
	"fmt"
	"runtime"
)

// usesCallLog: the expression mentions the call log of the function it belongs to (called(F), ncalls(F), quantification
// over calls(F)). Such a clause talks about calls made INSIDE the contracted function; at a call site it cannot be
// assumed against the caller's log (the inner calls are not in it), so the call rule leaves it out. What such a clause
// establishes reaches callers only through lemmas that chain the contracts.
func usesCallLog(x *Expr) bool {
	if x == nil {
		return false
	}
	switch x.Op {
	case "called", "ncalls", "forcalls", "existscalls":
		return true
	}
	for _, a := range x.Args {
		if usesCallLog(a) {
			return true
		}
	}
	return false
}

// evalBoolNilGuard evaluates a boolean clause part; nilRead reports that it dereferenced a nil pointer.
func (e *Engine) evalBoolNilGuard(env *Env, x *Expr) (t string, nilRead bool) {
	defer func() {
		if r := recover(); r != nil {
			if nd, ok := r.(*NilDeref); ok {
				if assumeSide[env.st] {
					// at a call site the clause is an ASSUMPTION: the call rule turns the nil read into an obligation
					// (the path must be infeasible) instead of silently assuming the guard away
					panic(nd)
				}
				t, nilRead = "false", true
				return
			}
			panic(r)
		}
	}()
	return e.evalBool(env, x), false
}

// solverSlots bounds the number of solver processes running at once (see runSolver).
var solverSlots = make(chan struct{}, solverProcs())

func solverProcs() int {
	n := runtime.NumCPU()
	if n < 2 {
		n = 2
	}
	return n
}

// assumeSide marks states whose contract clauses are currently evaluated as assumptions (call rule), not as goals.
var assumeSide = map[*State]bool{}

// checkAssumedClause: a callee clause that evaluates to a syntactically false consequent at the call site (e.g. the
// identity of a fresh result pointer with an argument) would silently cut the path: report it instead.
func checkAssumedClause(g, src, callee string) {
	if g == "false" || (len(g) > 12 && g[:4] == "(=> " && g[len(g)-7:] == " false)") {
		unsupported("clause of %s is false at the call site (its consequent cannot hold in the model; use `alias` for returned parameters): %s", callee, src)
	}
}

// assumeClause evaluates a callee clause at a call site. A clause that reads through a nil pointer there means the
// callee would dereference nil: the path must be infeasible (obligation), and is cut.
func (e *Engine) assumeClause(st *State, env *Env, x *Expr, src, callee string, props []string) {
	var g string
	nilMsg := ""
	func() {
		defer func() {
			delete(assumeSide, st)
			if r := recover(); r != nil {
				if nd, ok := r.(*NilDeref); ok {
					nilMsg = nd.Msg
					return
				}
				panic(r)
			}
		}()
		assumeSide[st] = true
		g = e.evalBool(env, x)
	}()
	if nilMsg != "" {
		e.oblige(st, fmt.Sprintf("%s#call:%s.nonnil", e.curName, shortTarget(callee)), "requires@call", "false",
			"a clause of "+callee+" reads through a nil pointer at this call ("+nilMsg+"): the path must be infeasible", props)
		st.assume("false")
		return
	}
	checkAssumedClause(g, src, callee)
	st.assume(g)
}

// untaggedClause: the failing group belongs to a clause without a clause-level [Cxx] tag (its owners are just the
// function's `props` list). Such clauses of a callee count for every property whose check verifies the callee as part
// of its cone; clause-level tags mark clauses that only one property claims (e.g. a known finding's clause).
func untaggedClause(w *World, g *Group) bool {
	if g.Failing != nil {
		return !g.Failing.Tagged
	}
	return false
}
