package main

import "runtime"

// usesCallLog: the expression mentions the call log of the function it belongs to (called(F), ncalls(F), quantification
// over calls(F)). Such a clause talks about calls made INSIDE the contracted function; at a call site it cannot be
// assumed against the caller's log (the inner calls are not in it), so the call rule leaves it out. What such a clause
// establishes reaches callers only through lemmas that chain the contracts.
func usesCallLog(x *Expr) bool {
	if x == nil {
		return false
	}
	switch x.Op {
	case "called", "ncalls", "forcalls", "existscalls":
		return true
	}
	for _, a := range x.Args {
		if usesCallLog(a) {
			return true
		}
	}
	return false
}

// evalBoolNilGuard evaluates a boolean clause part; nilRead reports that it dereferenced a nil pointer.
func (e *Engine) evalBoolNilGuard(env *Env, x *Expr) (t string, nilRead bool) {
	defer func() {
		if r := recover(); r != nil {
			if _, ok := r.(*NilDeref); ok {
				t, nilRead = "false", true
				return
			}
			panic(r)
		}
	}()
	return e.evalBool(env, x), false
}

// solverSlots bounds the number of solver processes running at once (see runSolver).
var solverSlots = make(chan struct{}, solverProcs())

func solverProcs() int {
	n := runtime.NumCPU()
	if n < 2 {
		n = 2
	}
	return n
}
