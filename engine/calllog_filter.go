package main

// usesCallLog: the expression mentions the call log of the function it belongs to (called(F), ncalls(F), quantification
// over calls(F)). Such a clause talks about calls made INSIDE the contracted function; at a call site it cannot be
// assumed against the caller's log (the inner calls are not in it), so the call rule leaves it out. What such a clause
// establishes reaches callers only through lemmas that chain the contracts.
func usesCallLog(x *Expr) bool {
	if x == nil {
		return false
	}
	switch x.Op {
	case "called", "ncalls", "forcalls", "existscalls":
		return true
	}
	for _, a := range x.Args {
		if usesCallLog(a) {
			return true
		}
	}
	return false
}
