package main

// Assumed contracts used by the transfer applications: bech32 account addresses (A-BECH32: encode/decode are inverse).

import (
	"fmt"

	"golang.org/x/tools/go/ssa"
)

func init() {
	reg(sdkTypes+"::AccAddressFromBech32", "(addr, err): err == nil <==> valid_bech32(s); on success addr == bech32_dec(s), non-empty, and bech32_enc(addr) == s",
		func(e *Engine, st *State, fr *Frame, a []Val, fn *ssa.Function, c *ssa.CallCommon) ([]Val, []*State) {
			e.C.DeclareFun("valid_bech32", []Sort{SStr}, SBool)
			e.C.DeclareFun("bech32_dec", []Sort{SStr}, SStr)
			e.C.DeclareFun("bech32_enc", []Sort{SStr}, SStr)
			s := a[0].(*Term)
			er := mk(SErr, e.C.Fresh("bech32_err", SErr))
			st.assume(fmt.Sprintf("(= (= %s err_nil) (valid_bech32 %s))", er.T, s.T))
			st.assume(fmt.Sprintf("(=> (valid_bech32 %s) (and (not (= (bech32_dec %s) str_empty)) (= (bech32_enc (bech32_dec %s)) %s)))", s.T, s.T, s.T, s.T))
			// on failure the address is nil
			addr := mk(SBytes, fmt.Sprintf("(ite (valid_bech32 %s) (mkB false (bech32_dec %s)) (mkB true str_empty))", s.T, s.T))
			return []Val{addr, er}, nil
		})
	reg(sdkTypes+"::(AccAddress).String", "bech32_enc(addr), with bech32_dec(bech32_enc(a)) == a and valid_bech32(bech32_enc(a)) for non-empty a",
		func(e *Engine, st *State, fr *Frame, a []Val, fn *ssa.Function, c *ssa.CallCommon) ([]Val, []*State) {
			e.C.DeclareFun("valid_bech32", []Sort{SStr}, SBool)
			e.C.DeclareFun("bech32_dec", []Sort{SStr}, SStr)
			e.C.DeclareFun("bech32_enc", []Sort{SStr}, SStr)
			b := bstrOf(e.toBytesTerm(st, a[0]).T)
			r := "(bech32_enc " + b + ")"
			st.assume(fmt.Sprintf("(=> (not (= %s str_empty)) (and (valid_bech32 %s) (= (bech32_dec %s) %s)))", b, r, r, b))
			return []Val{mk(SStr, r)}, nil
		})
	reg(sdkTypes+"::(AccAddress).Empty", "len(addr) == 0", func(e *Engine, st *State, fr *Frame, a []Val, fn *ssa.Function, c *ssa.CallCommon) ([]Val, []*State) {
		b := bstrOf(e.toBytesTerm(st, a[0]).T)
		return []Val{mkBool(smtEq(b, "str_empty"))}, nil
	})
	reg(sdkTypes+"::(AccAddress).Equals", "same bytes", func(e *Engine, st *State, fr *Frame, a []Val, fn *ssa.Function, c *ssa.CallCommon) ([]Val, []*State) {
		x := bstrOf(e.toBytesTerm(st, a[0]).T)
		y := e.coerceAddr(st, a[1])
		return []Val{mkBool(smtEq(x, y))}, nil
	})
	reg("strconv::FormatBool", "\"true\" / \"false\"", func(e *Engine, st *State, fr *Frame, a []Val, fn *ssa.Function, c *ssa.CallCommon) ([]Val, []*State) {
		return []Val{mk(SStr, smtIte(a[0].(*Term).T, e.C.StrLit("true"), e.C.StrLit("false")))}, nil
	})
}

func (e *Engine) coerceAddr(st *State, v Val) string {
	if iv, ok := v.(*IfaceV); ok && iv.Dyn != nil {
		v = iv.V
	}
	return bstrOf(e.toBytesTerm(st, v).T)
}
