package main

import (
	"flag"
	"fmt"
	"os"
	"path/filepath"
	"strings"
	"time"
)

var verifDir = "/verif"

func main() {
	if len(os.Args) < 2 {
		fatalf("usage: tibcvc <verify|check|selftest|replay|list> ...")
	}
	if d := os.Getenv("VERIF_DIR"); d != "" {
		verifDir = d
	}
	switch os.Args[1] {
	case "verify":
		cmdVerify(os.Args[2:])
	case "check":
		cmdCheck(os.Args[2:])
	case "list":
		cmdList(os.Args[2:])
	case "selftest":
		cmdSelftest(os.Args[2:])
	case "replay":
		cmdReplay(os.Args[2:])
	default:
		fatalf("unknown command %q", os.Args[1])
	}
}

func repoDir() string {
	if d := os.Getenv("TIBC_REPO"); d != "" {
		return d
	}
	return "/repo"
}

var loadPatterns = []string{"./modules/tibc/..."}

func newTmpDir() string {
	base := os.Getenv("TMPDIR")
	if base == "" {
		base = filepath.Join(verifDir, ".tmp")
	}
	os.MkdirAll(base, 0o755)
	d, err := os.MkdirTemp(base, "tibcvc")
	if err != nil {
		fatalf("tmpdir: %v", err)
	}
	return d
}

// cmdVerify: development entry: verify named functions / lemmas and print every obligation.
func cmdVerify(args []string) {
	fs := flag.NewFlagSet("verify", flag.ExitOnError)
	timeout := fs.Int("timeout", 10, "per-query timeout (s)")
	verbose := fs.Bool("v", false, "print hypotheses of failing obligations")
	keep := fs.Bool("keep", false, "keep query files")
	mut := fs.String("mutate", "", "dev: relpath|||old|||new  (source overlay, nothing is written to /repo)")
	fs.Parse(args)
	t0 := time.Now()
	var overlay map[string][]byte
	if *mut != "" {
		parts := strings.Split(*mut, "|||")
		if len(parts) != 3 {
			fatalf("-mutate relpath|||old|||new")
		}
		p := filepath.Join(repoDir(), parts[0])
		data, err := os.ReadFile(p)
		if err != nil {
			fatalf("%v", err)
		}
		if !strings.Contains(string(data), parts[1]) {
			fatalf("mutation target text not found in %s", p)
		}
		overlay = map[string][]byte{p: []byte(strings.Replace(string(data), parts[1], parts[2], 1))}
	}
	w, err := LoadWorld(repoDir(), loadPatterns, overlay, filepath.Join(verifDir, "specs"))
	if err != nil {
		fatalf("load: %v", err)
	}
	fmt.Printf("loaded in %.1fs; %d contracts, %d lemmas\n", time.Since(t0).Seconds(), len(w.Contract), len(w.Lemmas))
	e := NewEngine(w)
	e.TimeoutS = *timeout
	e.TmpDir = newTmpDir()
	if *keep {
		os.Setenv("TIBCVC_KEEP", "1")
		fmt.Println("queries in", e.TmpDir)
	} else {
		defer os.RemoveAll(e.TmpDir)
	}
	for _, a := range fs.Args() {
		if l, ok := w.Lemmas[a]; ok {
			e.RunLemma(l)
			continue
		}
		if f, ok := strLemmas[a]; ok {
			e.obls = append(e.obls, f(e)...)
			continue
		}
		key := resolveFuncArg(w, a)
		if key == "" {
			fatalf("no contract matches %q", a)
		}
		e.VerifyFunc(key)
	}
	e.Discharge(16)
	printGroups(e, *verbose)
	fmt.Printf("total %.1fs\n", time.Since(t0).Seconds())
}

func resolveFuncArg(w *World, a string) string {
	if _, ok := w.Contract[a]; ok {
		return a
	}
	var hits []string
	for k := range w.Contract {
		if strings.HasSuffix(k, a) || strings.Contains(shortKey(k), a) {
			hits = append(hits, k)
		}
	}
	if len(hits) == 1 {
		return hits[0]
	}
	if len(hits) > 1 {
		// prefer exact suffix after "::"
		for _, h := range hits {
			if strings.HasSuffix(h, "::"+a) {
				return h
			}
		}
		fatalf("ambiguous %q: %v", a, hits)
	}
	return ""
}

func printGroups(e *Engine, verbose bool) {
	for _, g := range e.Groups() {
		fmt.Printf("%-13s %-70s q=%d %.2fs %v\n", g.Status, g.Name, g.Queries, g.Secs, g.Solvers)
		if g.Status != "discharged" && g.Failing != nil {
			fmt.Printf("    %s\n    path %s\n", g.Desc, g.Failing.Path)
			m := g.Failing.Model
			if len(m) > 3000 && !verbose {
				m = m[:3000] + "..."
			}
			fmt.Printf("    %s\n", strings.ReplaceAll(m, "\n", "\n    "))
			if verbose {
				for _, h := range g.Failing.Hyps {
					fmt.Printf("      H: %s\n", h)
				}
				fmt.Printf("      G: %s\n", g.Failing.Goal)
			}
		}
	}
	for k := range e.havocked {
		fmt.Println("havocked call:", k)
	}
	for k := range e.unrolled {
		fmt.Println("bounded loop:", k)
	}
}

func cmdList(args []string) {
	w, err := LoadWorld(repoDir(), loadPatterns, nil, filepath.Join(verifDir, "specs"))
	if err != nil {
		fatalf("load: %v", err)
	}
	for _, k := range sortedKeys(w.Contract) {
		fmt.Println("func ", k)
	}
	for _, k := range sortedKeys(w.IfaceC) {
		fmt.Println("iface", k)
	}
	for _, k := range sortedKeys(w.Lemmas) {
		fmt.Println("lemma", k)
	}
}

func cmdSelftest(args []string) { cmdSelftestImpl(args) }
func cmdReplay(args []string)   { cmdReplayImpl(args) }
