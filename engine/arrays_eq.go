package main

import "fmt"

// Byte arrays: a concrete ArrayV of concrete bytes can be compared with an opaque byte string ("Arr" term) by turning
// it into a string literal; the all-zero array of length n is the constant zero_arr_n.
func (e *Engine) arrayAsStr(st *State, a *ArrayV) (*Term, bool) {
	if !isByteElem(a.ElemT) {
		return nil, false
	}
	bs := make([]byte, len(a.E))
	allZero := true
	for i, el := range a.E {
		t, ok := el.(*Term)
		if !ok {
			return nil, false
		}
		v, ok := bvConst(t.T)
		if !ok {
			return nil, false
		}
		bs[i] = byte(v)
		if v != 0 {
			allZero = false
		}
	}
	if allZero {
		name := fmt.Sprintf("zero_arr_%d", len(bs))
		e.C.DeclareFun(name, nil, SStr)
		st.assume(fmt.Sprintf("(= (slen %s) %s)", name, bvLit(uint64(len(bs)), 64)))
		return &Term{S: "Arr", T: name}, true
	}
	return &Term{S: "Arr", T: e.C.StrLit(string(bs))}, true
}

// bvConst parses a #x.. / #b.. literal.
func bvConst(t string) (uint64, bool) {
	if len(t) > 2 && t[0] == '#' && t[1] == 'x' {
		var v uint64
		for _, c := range t[2:] {
			var d uint64
			switch {
			case c >= '0' && c <= '9':
				d = uint64(c - '0')
			case c >= 'a' && c <= 'f':
				d = uint64(c-'a') + 10
			case c >= 'A' && c <= 'F':
				d = uint64(c-'A') + 10
			default:
				return 0, false
			}
			v = v<<4 | d
		}
		return v, true
	}
	if len(t) > 2 && t[0] == '#' && t[1] == 'b' {
		var v uint64
		for _, c := range t[2:] {
			if c != '0' && c != '1' {
				return 0, false
			}
			v = v<<1 | uint64(c-'0')
		}
		return v, true
	}
	return 0, false
}

func (e *Engine) arrayEq(st *State, a, b Val) (string, bool) {
	norm := func(v Val) (*Term, bool) {
		switch x := v.(type) {
		case *Term:
			if x.S == "Arr" {
				return x, true
			}
		case *ArrayV:
			return e.arrayAsStr(st, x)
		}
		return nil, false
	}
	// an opaque pointer and an opaque object term
	if pa, ok := a.(*PtrV); ok && pa.Opaque != nil && pa.Opaque.S == "Obj" {
		if tb, ok := b.(*Term); ok && tb.S == "Obj" {
			return smtEq(pa.Opaque.T, tb.T), true
		}
	}
	if pb, ok := b.(*PtrV); ok && pb.Opaque != nil && pb.Opaque.S == "Obj" {
		if ta, ok := a.(*Term); ok && ta.S == "Obj" {
			return smtEq(pb.Opaque.T, ta.T), true
		}
	}
	if x, ok := a.(*StoreHandleV); ok {
		y, ok := b.(*StoreHandleV)
		if !ok {
			return "", false
		}
		if x.Ghost != y.Ghost || x.Kind != y.Kind || (x.Prefix == nil) != (y.Prefix == nil) || (x.Opaque == nil) != (y.Opaque == nil) {
			return "false", true
		}
		var parts []string
		if x.Prefix != nil {
			parts = append(parts, smtEq(x.Prefix.T, y.Prefix.T))
		}
		if x.Opaque != nil {
			parts = append(parts, smtEq(x.Opaque.T, y.Opaque.T))
		}
		return smtAnd(parts...), true
	}
	_, aa := a.(*ArrayV)
	_, ba := b.(*ArrayV)
	if !aa && !ba {
		return "", false
	}
	x, ok1 := norm(a)
	y, ok2 := norm(b)
	if ok1 && ok2 {
		return smtEq(x.T, y.T), true
	}
	if aa && ba {
		av, bv := a.(*ArrayV), b.(*ArrayV)
		if len(av.E) != len(bv.E) {
			return "false", true
		}
		var parts []string
		for i := range av.E {
			parts = append(parts, e.valEq(st, av.E[i], bv.E[i]))
		}
		return smtAnd(parts...), true
	}
	return "", false
}
