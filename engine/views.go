package main

// Views of opaque values (A-PROTO: decoding is a function of the encoded value): a type assertion of an opaque
// interface value to a concrete in-repo message type yields a struct whose fields are uninterpreted functions of
// the opaque value, and an uninterpreted type test. Time is modelled as mathematical nanoseconds (Int) with
// uninterpreted views Unix()/Nanosecond(); Duration is its underlying int64 with an uninterpreted integer twin.

import (
	"fmt"
	"go/types"
	"strings"

	"golang.org/x/tools/go/ssa"
)

func typeTag(t types.Type) string {
	if p, ok := t.(*types.Pointer); ok {
		t = p.Elem()
	}
	// package-path qualified (several packages are called `types`)
	s := types.TypeString(t, func(p *types.Package) string {
		return strings.TrimPrefix(p.Path(), repoModule+"/modules/tibc/")
	})
	return sanitize(s)
}

func (e *Engine) isaTerm(obj *Term, t types.Type) string {
	n := "isa_" + typeTag(t)
	e.C.DeclareFun(n, []Sort{"Obj"}, SBool)
	return "(" + n + " " + obj.T + ")"
}

// fieldView builds the value of one field as a function of the opaque value.
func (e *Engine) fieldView(st *State, obj *Term, tag string, path string, ft types.Type, depth int) Val {
	name := "fld_" + tag + "_" + path
	mkT := func(s Sort, signed bool) *Term {
		e.C.DeclareFun(name, []Sort{"Obj"}, s)
		return &Term{S: s, T: "(" + name + " " + obj.T + ")", Signed: signed, GoT: ft}
	}
	if isErrorType(ft) {
		return mkT(SErr, false)
	}
	if n, ok := types.Unalias(ft).(*types.Named); ok && n.Obj().Pkg() != nil {
		switch n.Obj().Pkg().Path() + "." + n.Obj().Name() {
		case "time.Time":
			t := mkT(SInt, false)
			t.GoT = nil
			return t
		}
	}
	switch u := ft.Underlying().(type) {
	case *types.Basic:
		switch {
		case u.Info()&types.IsBoolean != 0:
			return mkT(SBool, false)
		case u.Info()&types.IsInteger != 0:
			w, sg := intInfo(u)
			return mkT(BV(w), sg)
		case u.Info()&types.IsString != 0:
			return mkT(SStr, false)
		}
		return mkT("Obj", false)
	case *types.Slice:
		if isByteSlice(ft) {
			b := mkT(SBytes, false)
			st.assume(fmt.Sprintf("(=> (bnil %s) (= (bstr %s) str_empty))", b.T, b.T))
			return b
		}
		return mkT("Obj", false)
	case *types.Struct:
		if e.transparentStruct(ft) && depth < 5 {
			sv := &StructV{T: ft}
			for i := 0; i < u.NumFields(); i++ {
				sv.F = append(sv.F, e.fieldView(st, obj, tag, path+"_"+u.Field(i).Name(), u.Field(i).Type(), depth+1))
			}
			return sv
		}
		return mkT("Obj", false)
	case *types.Pointer:
		if e.transparentStruct(u.Elem()) && depth < 4 {
			// a message-typed field: a cell holding the view of the pointee (assumed non-nil: A-NONNIL for decoded messages
			// is NOT assumed here: nil-ness is an uninterpreted flag)
			inner := e.fieldView(st, obj, tag, path, u.Elem(), depth+1)
			c := st.newCell(name)
			st.heap[c.ID] = inner
			return &PtrV{C: c, T: ft}
		}
		o := mkT("Obj", false)
		return &PtrV{Opaque: o, T: ft}
	}
	return mkT("Obj", false)
}

// structView returns the struct (of type t, or *t's element) whose fields are functions of obj.
func (e *Engine) structView(st *State, obj *Term, t types.Type) *StructV {
	if p, ok := t.(*types.Pointer); ok {
		t = p.Elem()
	}
	stt, ok := t.Underlying().(*types.Struct)
	if !ok {
		unsupported("view of %s as %s", obj.T, t)
	}
	tag := typeTag(t)
	sv := &StructV{T: t}
	for i := 0; i < stt.NumFields(); i++ {
		sv.F = append(sv.F, e.fieldView(st, obj, tag, stt.Field(i).Name(), stt.Field(i).Type(), 0))
	}
	return sv
}

// assertView implements TypeAssert on an opaque value for an in-repo concrete type.
func (e *Engine) assertView(st *State, obj *Term, asserted types.Type) (Val, *Term, bool) {
	var elem types.Type = asserted
	isPtr := false
	if p, ok := asserted.(*types.Pointer); ok {
		elem = p.Elem()
		isPtr = true
	}
	if _, ok := elem.Underlying().(*types.Struct); !ok || !e.transparentStruct(elem) {
		return nil, nil, false
	}
	okT := mkBool(e.isaTerm(obj, elem))
	sv := e.structView(st, obj, elem)
	if isPtr {
		c := st.newCell("view_" + typeTag(elem))
		st.heap[c.ID] = sv
		return &PtrV{C: c, T: asserted}, okT, true
	}
	return sv, okT, true
}

// ------------------------------------------------------------------------------------------
// time

func init() {
	tt := func(v Val) *Term {
		t, ok := v.(*Term)
		if !ok || t.S != SInt {
			unsupported("time value %s", valString(v))
		}
		return t
	}
	durInt := func(e *Engine, d Val) string {
		t := d.(*Term)
		e.C.DeclareFun("dur_int", []Sort{BV(64)}, SInt)
		return "(dur_int " + t.T + ")"
	}
	reg("time::(Time).Add", "t + d as mathematical nanoseconds: ns(result) == ns(t) + dur_int(d)", func(e *Engine, st *State, fr *Frame, args []Val, fn *ssa.Function, c *ssa.CallCommon) ([]Val, []*State) {
		return []Val{mk(SInt, fmt.Sprintf("(+ %s %s)", tt(args[0]).T, durInt(e, args[1])))}, nil
	})
	reg("time::(Time).After", "ns(t) > ns(u)", func(e *Engine, st *State, fr *Frame, args []Val, fn *ssa.Function, c *ssa.CallCommon) ([]Val, []*State) {
		return []Val{mkBool(fmt.Sprintf("(> %s %s)", tt(args[0]).T, tt(args[1]).T))}, nil
	})
	reg("time::(Time).Before", "ns(t) < ns(u)", func(e *Engine, st *State, fr *Frame, args []Val, fn *ssa.Function, c *ssa.CallCommon) ([]Val, []*State) {
		return []Val{mkBool(fmt.Sprintf("(< %s %s)", tt(args[0]).T, tt(args[1]).T))}, nil
	})
	reg("time::(Time).Equal", "ns(t) == ns(u)", func(e *Engine, st *State, fr *Frame, args []Val, fn *ssa.Function, c *ssa.CallCommon) ([]Val, []*State) {
		return []Val{mkBool(smtEq(tt(args[0]).T, tt(args[1]).T))}, nil
	})
	reg("time::(Time).Sub", "int_dur(ns(t) - ns(u)) (uninterpreted duration of the difference, saturating in Go)", func(e *Engine, st *State, fr *Frame, args []Val, fn *ssa.Function, c *ssa.CallCommon) ([]Val, []*State) {
		e.C.DeclareFun("int_dur", []Sort{SInt}, BV(64))
		return []Val{mkBV(64, fmt.Sprintf("(int_dur (- %s %s))", tt(args[0]).T, tt(args[1]).T), true)}, nil
	})
	reg("time::(Time).Unix", "time_unix(ns(t)): seconds since the epoch (uninterpreted view)", func(e *Engine, st *State, fr *Frame, args []Val, fn *ssa.Function, c *ssa.CallCommon) ([]Val, []*State) {
		e.C.DeclareFun("time_unix", []Sort{SInt}, BV(64))
		return []Val{mkBV(64, "(time_unix "+tt(args[0]).T+")", true)}, nil
	})
	reg("time::(Time).UnixNano", "time_unixnano(ns(t)) (uninterpreted view)", func(e *Engine, st *State, fr *Frame, args []Val, fn *ssa.Function, c *ssa.CallCommon) ([]Val, []*State) {
		e.C.DeclareFun("time_unixnano", []Sort{SInt}, BV(64))
		return []Val{mkBV(64, "(time_unixnano "+tt(args[0]).T+")", true)}, nil
	})
	reg("time::(Time).Nanosecond", "time_nsec(ns(t)) in [0, 999999999]: the sub-second part (uninterpreted view)", func(e *Engine, st *State, fr *Frame, args []Val, fn *ssa.Function, c *ssa.CallCommon) ([]Val, []*State) {
		e.C.DeclareFun("time_nsec", []Sort{SInt}, BV(64))
		t := "(time_nsec " + tt(args[0]).T + ")"
		if !strings.Contains(t, "|q_") {
			st.assume(fmt.Sprintf("(and (bvsge %s #x0000000000000000) (bvslt %s #x000000003b9aca00))", t, t))
		}
		return []Val{mkBV(64, t, true)}, nil
	})
	reg("time::(Time).IsZero", "ns(t) == time_zero", func(e *Engine, st *State, fr *Frame, args []Val, fn *ssa.Function, c *ssa.CallCommon) ([]Val, []*State) {
		e.C.DeclareFun("time_zero", nil, SInt)
		return []Val{mkBool(smtEq(tt(args[0]).T, "time_zero"))}, nil
	})
	reg("time::(Time).UTC", "identity on the instant", func(e *Engine, st *State, fr *Frame, args []Val, fn *ssa.Function, c *ssa.CallCommon) ([]Val, []*State) {
		return []Val{args[0]}, nil
	})
	reg("time::Unix", "the instant sec seconds + nsec nanoseconds after the epoch: unix_time(sec, nsec), with time_unix(unix_time(s, 0)) == s", func(e *Engine, st *State, fr *Frame, args []Val, fn *ssa.Function, c *ssa.CallCommon) ([]Val, []*State) {
		e.C.DeclareFun("unix_time", []Sort{BV(64), BV(64)}, SInt)
		e.C.DeclareFun("time_unix", []Sort{SInt}, BV(64))
		t := fmt.Sprintf("(unix_time %s %s)", args[0].(*Term).T, args[1].(*Term).T)
		if args[1].(*Term).T == bvLit(0, 64) && !strings.Contains(t, "|q_") {
			st.assume(fmt.Sprintf("(= (time_unix %s) %s)", t, args[0].(*Term).T))
		}
		return []Val{mk(SInt, t)}, nil
	})
	reg("time::Now", "wall-clock time: an unconstrained instant, different at every call (a source of non-determinism: C20)", func(e *Engine, st *State, fr *Frame, args []Val, fn *ssa.Function, c *ssa.CallCommon) ([]Val, []*State) {
		return []Val{mk(SInt, e.C.Fresh("wallclock", SInt))}, nil
	})
}
