package main

import (
	"go/types"

	"golang.org/x/tools/go/ssa"
)

// havocCapture: an unconstrained value for a variable captured (by reference) by a callback.
func (e *Engine) havocCapture(st *State, fv *ssa.FreeVar) Val {
	pt, ok := fv.Type().(*types.Pointer)
	if !ok {
		unsupported("captured variable %s is not held by reference", fv.Name())
	}
	return e.freshVal(st, "captured_"+fv.Name(), pt.Elem(), 1)
}
