package main

// Contract files: structured //@ comments in zz_contracts_verif.go files inside /repo packages,
// plus spec files under /verif/specs. This file holds the data model and the parser.

import (
	"fmt"
	"os"
	"strconv"
	"strings"
	"unicode"
)

type Clause struct {
	Kind  string // requires | ensures | invariant | decreases | cover
	Label string
	E     *Expr
	Src   string
	Props []string
	Loop  int
	Known string // label of a known finding this clause is expected to fail with ("" normally)
}

type LetDef struct {
	Name string
	E    *Expr
}

type LoopSpec struct {
	Ord       int
	Invs      []*Clause
	Decreases *Expr
	Modifies  []string
	Unroll    int
}

type FuncContract struct {
	File     string
	Line     int
	Pkg      string // package path the contract file belongs to
	Target   string // "(Keeper).SendPacket" or "CommitPacket"; for iface: "exported.ClientState.VerifyPacketCommitment"
	IsIface  bool
	IsExtern bool // assumed contract on a function outside /repo or left unverified
	Params   []string
	Results  []string
	Dyn      map[string]string // param -> concrete type (pkgalias.Type)
	Lets     []LetDef
	Requires []*Clause
	Ensures  []*Clause
	Covers   []*Clause
	Modifies []string
	ModAll   bool
	Loops    map[int]*LoopSpec
	Flags    map[string]bool // pure, nopanic, tracked, trusted, inline
	Props    []string
	Nullable map[string]bool
	PostLets []LetDef // lets evaluated in the post state (after results are known)
}

type SpecFn struct {
	Name   string
	Params []Binder
	Res    string
	Body   *Expr
	Pkg    string
}

type KeyFn struct {
	Pkg    string
	Func   string // Go function name in Pkg
	Params []string
	Ctor   string
	Args   []*Expr // expressions over Params
	Sorts  []string
	Sub    bool // key inside a prefix store
	Ret    string // "bytes" | "str"
}

type Wire struct {
	Pkg    string
	Struct string // "Keeper"
	Field  string
	Target string // type path or "store <ghost>"
}

type LemmaStep struct {
	Kind   string // assume | show | call | havoc | let | fresh
	Label  string
	E      *Expr
	Src    string
	Name   string   // let name / fresh name / call result prefix
	Type   string   // fresh type
	Callee string   // call target
	Args   []*Expr  // call args
	Rets   []string // call result names
	Known  string
}

type Lemma struct {
	Name  string
	File  string
	Line  int
	Pkg   string
	Steps []LemmaStep
	Props []string
}

type KeyCtorDecl struct {
	Name  string
	Sorts []string
}

type GhostVar struct {
	Name string
	Sort string
}

type ContractFile struct {
	Path    string
	Pkg     string
	Imports map[string]string
	Funcs   []*FuncContract
	Specs   []*SpecFn
	KeyFns  []*KeyFn
	Wires   []*Wire
	Lemmas  []*Lemma
	Sorts   []string
	Ghosts  []GhostVar
	KeyCtors []KeyCtorDecl
	Axioms  []*Clause
	Invs    []*Clause // named module invariants usable as inv(NAME)
}

var clauseKeywords = map[string]bool{
	"requires": true, "ensures": true, "trusts": true, "let": true, "postlet": true, "modifies": true, "loop": true, "dyn": true,
	"props": true, "flags": true, "cover": true, "nullable": true, "alias": true, "mutates": true,
	"assume": true, "show": true, "call": true, "havoc": true, "fresh": true, "set": true,
}

var topKeywords = map[string]bool{
	"func": true, "iface": true, "extern": true, "spec": true, "keyfn": true, "subkeyfn": true, "wire": true, "lemma": true,
	"sort": true, "ghost": true, "keyctor": true, "import": true, "axiom": true, "invariant": true, "strkeyfn": true,
}

// ParseContractFile reads the //@ lines of one file.
func ParseContractFile(path, pkg string) (*ContractFile, error) {
	data, err := os.ReadFile(path)
	if err != nil {
		return nil, err
	}
	cf := &ContractFile{Path: path, Pkg: pkg, Imports: map[string]string{}}
	type rawLine struct {
		n    int
		text string
	}
	var lines []rawLine
	for i, l := range strings.Split(string(data), "\n") {
		t := strings.TrimSpace(l)
		if strings.HasPrefix(t, "//@") {
			body := strings.TrimPrefix(t, "//@")
			// strip trailing comment "   // ..."
			if idx := strings.Index(body, " // "); idx >= 0 {
				body = body[:idx]
			}
			lines = append(lines, rawLine{i + 1, body})
		} else if strings.HasPrefix(t, "@") && strings.HasSuffix(path, ".spec") {
			lines = append(lines, rawLine{i + 1, strings.TrimPrefix(t, "@")})
		} else if strings.HasSuffix(path, ".spec") && t != "" && !strings.HasPrefix(t, "#") && !strings.HasPrefix(t, "//") {
			if idx := strings.Index(l, " // "); idx >= 0 {
				l = l[:idx]
			}
			lines = append(lines, rawLine{i + 1, l})
		}
	}
	// group: a logical statement starts with a keyword; continuation lines are appended
	type stmt struct {
		n    int
		kw   string
		rest string
	}
	var stmts []stmt
	for _, rl := range lines {
		t := strings.TrimSpace(rl.text)
		if t == "" {
			continue
		}
		w := firstWord(t)
		if topKeywords[w] || clauseKeywords[w] {
			stmts = append(stmts, stmt{rl.n, w, strings.TrimSpace(t[len(w):])})
		} else if len(stmts) > 0 {
			stmts[len(stmts)-1].rest += " " + t
		} else {
			return nil, fmt.Errorf("%s:%d: text before any keyword: %q", path, rl.n, t)
		}
	}
	var curF *FuncContract
	var curL *Lemma
	fail := func(n int, f string, a ...any) error {
		return fmt.Errorf("%s:%d: %s", path, n, fmt.Sprintf(f, a...))
	}
	for _, s := range stmts {
		switch s.kw {
		case "import":
			parts := strings.Fields(s.rest)
			if len(parts) != 2 {
				return nil, fail(s.n, "import alias \"path\"")
			}
			cf.Imports[parts[0]] = strings.Trim(parts[1], "\"")
		case "sort":
			cf.Sorts = append(cf.Sorts, strings.Fields(s.rest)...)
		case "keyctor":
			// keyctor name(sort, sort): a ghost key family that no Go key builder produces
			i := strings.Index(s.rest, "(")
			if i < 0 || !strings.HasSuffix(strings.TrimSpace(s.rest), ")") {
				return nil, fail(s.n, "keyctor name(sorts)")
			}
			r := strings.TrimSpace(s.rest)
			cf.KeyCtors = append(cf.KeyCtors, KeyCtorDecl{Name: strings.TrimSpace(r[:i]), Sorts: splitNames(r[i+1 : len(r)-1])})
		case "ghost":
			parts := strings.SplitN(s.rest, ":", 2)
			if len(parts) != 2 {
				return nil, fail(s.n, "ghost name: sort")
			}
			cf.Ghosts = append(cf.Ghosts, GhostVar{strings.TrimSpace(parts[0]), strings.TrimSpace(parts[1])})
		case "wire":
			// wire (Keeper).clientKeeper = target
			parts := strings.SplitN(s.rest, "=", 2)
			if len(parts) != 2 {
				return nil, fail(s.n, "wire (T).field = target")
			}
			lhs := strings.TrimSpace(parts[0])
			i := strings.Index(lhs, ").")
			if !strings.HasPrefix(lhs, "(") || i < 0 {
				return nil, fail(s.n, "wire (T).field = target")
			}
			cf.Wires = append(cf.Wires, &Wire{Pkg: pkg, Struct: lhs[1:i], Field: lhs[i+2:], Target: strings.TrimSpace(parts[1])})
		case "spec":
			sp, err := parseSpec(s.rest)
			if err != nil {
				return nil, fail(s.n, "%v", err)
			}
			sp.Pkg = pkg
			cf.Specs = append(cf.Specs, sp)
		case "keyfn", "subkeyfn", "strkeyfn":
			kf, err := parseKeyFn(s.rest)
			if err != nil {
				return nil, fail(s.n, "%v", err)
			}
			kf.Pkg = pkg
			kf.Sub = s.kw == "subkeyfn"
			kf.Ret = "bytes"
			if s.kw == "strkeyfn" {
				kf.Ret = "str"
			}
			cf.KeyFns = append(cf.KeyFns, kf)
		case "axiom", "invariant":
			cl, err := parseClause(s.kw, s.rest)
			if err != nil {
				return nil, fail(s.n, "%v", err)
			}
			if s.kw == "axiom" {
				cf.Axioms = append(cf.Axioms, cl)
			} else {
				cf.Invs = append(cf.Invs, cl)
			}
		case "func", "iface", "extern":
			fc, err := parseFuncHeader(s.rest)
			if err != nil {
				return nil, fail(s.n, "%v", err)
			}
			fc.File, fc.Line, fc.Pkg = path, s.n, pkg
			fc.IsIface = s.kw == "iface"
			fc.IsExtern = s.kw == "extern"
			cf.Funcs = append(cf.Funcs, fc)
			curF, curL = fc, nil
		case "lemma":
			l := &Lemma{Name: strings.TrimSpace(s.rest), File: path, Line: s.n, Pkg: pkg}
			cf.Lemmas = append(cf.Lemmas, l)
			curL, curF = l, nil
		default:
			if curF == nil && curL == nil {
				return nil, fail(s.n, "clause %q outside func/lemma", s.kw)
			}
			if curL != nil {
				if err := parseLemmaStep(curL, s.kw, s.rest); err != nil {
					return nil, fail(s.n, "%v", err)
				}
				continue
			}
			if err := parseFuncClause(curF, s.kw, s.rest); err != nil {
				return nil, fail(s.n, "%v", err)
			}
		}
	}
	return cf, nil
}

func firstWord(s string) string {
	for i, r := range s {
		if !(unicode.IsLetter(r)) {
			return s[:i]
		}
	}
	return s
}

func parseFuncHeader(s string) (*FuncContract, error) {
	// (Keeper).SendPacket(ctx, packet) (err)   |  CommitPacket(packet) (result)
	fc := &FuncContract{Dyn: map[string]string{}, Loops: map[int]*LoopSpec{}, Flags: map[string]bool{}, Nullable: map[string]bool{}}
	s = strings.TrimSpace(s)
	// find the parameter list: last '(' group(s). Target is up to the '(' that opens params.
	// Strategy: scan; the target may start with "(T)." receiver.
	i := 0
	if strings.HasPrefix(s, "(") {
		j := strings.Index(s, ").")
		if j < 0 {
			return nil, fmt.Errorf("bad func header %q", s)
		}
		i = j + 2
	}
	k := strings.Index(s[i:], "(")
	if k < 0 {
		return nil, fmt.Errorf("bad func header %q: no parameter list", s)
	}
	fc.Target = strings.TrimSpace(s[:i+k])
	rest := s[i+k:]
	close1 := strings.Index(rest, ")")
	if close1 < 0 {
		return nil, fmt.Errorf("bad func header %q", s)
	}
	fc.Params = splitNames(rest[1:close1])
	rest = strings.TrimSpace(rest[close1+1:])
	if strings.HasPrefix(rest, "(") {
		close2 := strings.Index(rest, ")")
		if close2 < 0 {
			return nil, fmt.Errorf("bad func header %q", s)
		}
		fc.Results = splitNames(rest[1:close2])
	}
	return fc, nil
}

func splitNames(s string) []string {
	var out []string
	for _, p := range strings.Split(s, ",") {
		p = strings.TrimSpace(p)
		if p != "" {
			out = append(out, p)
		}
	}
	return out
}

// parseClause parses "[C01,C02] label: expr" or "label: expr"; optional "{known F-xx}" prefix.
func parseClause(kind, s string) (*Clause, error) {
	cl := &Clause{Kind: kind}
	s = strings.TrimSpace(s)
	if strings.HasPrefix(s, "[") {
		j := strings.Index(s, "]")
		if j < 0 {
			return nil, fmt.Errorf("unclosed [props]")
		}
		cl.Props = splitNames(s[1:j])
		s = strings.TrimSpace(s[j+1:])
	}
	// label: up to first ':' provided the label is an identifier-ish token (letters, digits, . _ -)
	if j := strings.Index(s, ":"); j > 0 && isLabel(s[:j]) && !strings.HasPrefix(s[j:], "::") && !strings.HasPrefix(s[j:], ":=") {
		cl.Label = strings.TrimSpace(s[:j])
		s = strings.TrimSpace(s[j+1:])
	}
	cl.Src = s
	e, err := ParseExpr(s)
	if err != nil {
		return nil, fmt.Errorf("%s %s: %v", kind, cl.Label, err)
	}
	cl.E = e
	return cl, nil
}

func isLabel(s string) bool {
	s = strings.TrimSpace(s)
	if s == "" {
		return false
	}
	for _, r := range s {
		if !(unicode.IsLetter(r) || unicode.IsDigit(r) || r == '.' || r == '_' || r == '-') {
			return false
		}
	}
	return true
}

func parseFuncClause(fc *FuncContract, kw, rest string) error {
	switch kw {
	case "requires", "ensures", "cover", "trusts":
		cl, err := parseClause(kw, rest)
		if err != nil {
			return err
		}
		if cl.Label == "" {
			cl.Label = fmt.Sprintf("%s%d", kw, len(fc.Requires)+len(fc.Ensures)+len(fc.Covers))
		}
		switch kw {
		case "requires":
			fc.Requires = append(fc.Requires, cl)
		case "trusts":
			// a postcondition that callers may assume but that is NOT verified against the body (reported as assumed)
			cl.Kind = "ensures"
			cl.Known = "trusted"
			fc.Ensures = append(fc.Ensures, cl)
		case "ensures":
			fc.Ensures = append(fc.Ensures, cl)
		case "cover":
			fc.Covers = append(fc.Covers, cl)
		}
	case "let", "postlet":
		parts := strings.SplitN(rest, "=", 2)
		if len(parts) != 2 {
			return fmt.Errorf("let name = expr")
		}
		e, err := ParseExpr(parts[1])
		if err != nil {
			return fmt.Errorf("let %s: %v", parts[0], err)
		}
		ld := LetDef{strings.TrimSpace(parts[0]), e}
		if kw == "let" {
			fc.Lets = append(fc.Lets, ld)
		} else {
			fc.PostLets = append(fc.PostLets, ld)
		}
	case "modifies":
		for _, n := range splitNames(rest) {
			if n == "*" {
				fc.ModAll = true
			} else {
				fc.Modifies = append(fc.Modifies, n)
			}
		}
	case "dyn":
		parts := strings.SplitN(rest, "=", 2)
		if len(parts) != 2 {
			return fmt.Errorf("dyn param = type")
		}
		fc.Dyn[strings.TrimSpace(parts[0])] = strings.TrimSpace(parts[1])
	case "nullable":
		for _, n := range splitNames(rest) {
			fc.Nullable[n] = true
		}
	case "mutates":
		// mutates p, q: the function writes through these pointer parameters (see callContract / VerifyFunc)
		for _, n := range splitNames(rest) {
			fc.Dyn["mutates:"+n] = "1"
		}
	case "alias":
		// alias <result> = <param> [when <cond>]: on return the pointer result IS the pointer parameter (same object).
		// Checked in the function (pointer identity); at call sites the result is bound to the argument itself.
		parts := strings.SplitN(rest, "=", 2)
		if len(parts) != 2 {
			return fmt.Errorf("alias result = param")
		}
		fc.Dyn["alias:"+strings.TrimSpace(parts[0])] = strings.TrimSpace(parts[1])
	case "props":
		fc.Props = append(fc.Props, strings.Fields(strings.ReplaceAll(rest, ",", " "))...)
	case "flags":
		for _, f := range strings.Fields(strings.ReplaceAll(rest, ",", " ")) {
			fc.Flags[f] = true
		}
	case "loop":
		// loop #k invariant label: e | loop #k decreases e | loop #k modifies a, b | loop #k unroll n
		rest = strings.TrimSpace(rest)
		if !strings.HasPrefix(rest, "#") {
			return fmt.Errorf("loop #k ...")
		}
		sp := strings.IndexAny(rest, " \t")
		if sp < 0 {
			return fmt.Errorf("loop #k ...")
		}
		k, err := strconv.Atoi(rest[1:sp])
		if err != nil {
			return err
		}
		ls := fc.Loops[k]
		if ls == nil {
			ls = &LoopSpec{Ord: k}
			fc.Loops[k] = ls
		}
		body := strings.TrimSpace(rest[sp:])
		w := firstWord(body)
		arg := strings.TrimSpace(body[len(w):])
		switch w {
		case "invariant":
			cl, err := parseClause("invariant", arg)
			if err != nil {
				return err
			}
			if cl.Label == "" {
				cl.Label = fmt.Sprintf("inv%d", len(ls.Invs))
			}
			cl.Loop = k
			ls.Invs = append(ls.Invs, cl)
		case "decreases":
			e, err := ParseExpr(arg)
			if err != nil {
				return err
			}
			ls.Decreases = e
		case "modifies":
			ls.Modifies = append(ls.Modifies, splitNames(arg)...)
		case "unroll":
			n, err := strconv.Atoi(arg)
			if err != nil {
				return err
			}
			ls.Unroll = n
		default:
			return fmt.Errorf("loop clause %q", w)
		}
	default:
		return fmt.Errorf("clause %q not valid in func contract", kw)
	}
	return nil
}

func parseLemmaStep(l *Lemma, kw, rest string) error {
	switch kw {
	case "props":
		l.Props = append(l.Props, strings.Fields(strings.ReplaceAll(rest, ",", " "))...)
	case "assume", "show":
		cl, err := parseClause(kw, rest)
		if err != nil {
			return err
		}
		l.Steps = append(l.Steps, LemmaStep{Kind: kw, Label: cl.Label, E: cl.E, Src: cl.Src})
	case "let":
		parts := strings.SplitN(rest, "=", 2)
		if len(parts) != 2 {
			return fmt.Errorf("let name = expr")
		}
		e, err := ParseExpr(parts[1])
		if err != nil {
			return err
		}
		l.Steps = append(l.Steps, LemmaStep{Kind: "let", Name: strings.TrimSpace(parts[0]), E: e})
	case "fresh":
		// fresh name: type
		parts := strings.SplitN(rest, ":", 2)
		if len(parts) != 2 {
			return fmt.Errorf("fresh name: type")
		}
		for _, n := range splitNames(parts[0]) {
			l.Steps = append(l.Steps, LemmaStep{Kind: "fresh", Name: n, Type: strings.TrimSpace(parts[1])})
		}
	case "havoc":
		for _, n := range splitNames(rest) {
			l.Steps = append(l.Steps, LemmaStep{Kind: "havoc", Name: n})
		}
	case "set":
		parts := strings.SplitN(rest, "=", 2)
		if len(parts) != 2 {
			return fmt.Errorf("set ghost = expr")
		}
		e, err := ParseExpr(parts[1])
		if err != nil {
			return err
		}
		l.Steps = append(l.Steps, LemmaStep{Kind: "set", Name: strings.TrimSpace(parts[0]), E: e})
	case "call":
		// call r1, r2 = (Keeper).RecvPacket(a, b, c)   [callee given as pkgalias:(T).M or (T).M in lemma's pkg]
		st := LemmaStep{Kind: "call"}
		if i := strings.Index(rest, "="); i >= 0 && !strings.Contains(rest[:i], "(") {
			st.Rets = splitNames(rest[:i])
			rest = strings.TrimSpace(rest[i+1:])
		}
		j := strings.LastIndex(rest, ")")
		// find the '(' matching the last ')'
		depth := 0
		open := -1
		for p := j; p >= 0; p-- {
			if rest[p] == ')' {
				depth++
			} else if rest[p] == '(' {
				depth--
				if depth == 0 {
					open = p
					break
				}
			}
		}
		if open < 0 {
			return fmt.Errorf("call F(args)")
		}
		st.Callee = strings.TrimSpace(rest[:open])
		argsrc := rest[open+1 : j]
		for _, a := range splitTopLevel(argsrc, ',') {
			a = strings.TrimSpace(a)
			if a == "" {
				continue
			}
			e, err := ParseExpr(a)
			if err != nil {
				return err
			}
			st.Args = append(st.Args, e)
		}
		l.Steps = append(l.Steps, st)
	default:
		return fmt.Errorf("step %q not valid in lemma", kw)
	}
	return nil
}

func splitTopLevel(s string, sep byte) []string {
	var out []string
	depth := 0
	last := 0
	inStr := false
	for i := 0; i < len(s); i++ {
		c := s[i]
		if inStr {
			if c == '"' {
				inStr = false
			}
			continue
		}
		switch c {
		case '"':
			inStr = true
		case '(', '[':
			depth++
		case ')', ']':
			depth--
		default:
			if c == sep && depth == 0 {
				out = append(out, s[last:i])
				last = i + 1
			}
		}
	}
	out = append(out, s[last:])
	return out
}

func parseSpec(s string) (*SpecFn, error) {
	// name(a: sort, b: sort): sort [= body]
	i := strings.Index(s, "(")
	if i < 0 {
		return nil, fmt.Errorf("spec name(params): sort")
	}
	sp := &SpecFn{Name: strings.TrimSpace(s[:i])}
	depth := 0
	j := -1
	for p := i; p < len(s); p++ {
		if s[p] == '(' {
			depth++
		} else if s[p] == ')' {
			depth--
			if depth == 0 {
				j = p
				break
			}
		}
	}
	if j < 0 {
		return nil, fmt.Errorf("spec %s: unclosed params", sp.Name)
	}
	for _, p := range splitTopLevel(s[i+1:j], ',') {
		p = strings.TrimSpace(p)
		if p == "" {
			continue
		}
		parts := strings.SplitN(p, ":", 2)
		if len(parts) != 2 {
			return nil, fmt.Errorf("spec %s: param %q needs a sort", sp.Name, p)
		}
		sp.Params = append(sp.Params, Binder{strings.TrimSpace(parts[0]), strings.TrimSpace(parts[1])})
	}
	rest := strings.TrimSpace(s[j+1:])
	if !strings.HasPrefix(rest, ":") {
		return nil, fmt.Errorf("spec %s: missing result sort", sp.Name)
	}
	rest = rest[1:]
	if k := strings.Index(rest, "="); k >= 0 && !strings.HasPrefix(rest[k:], "==") {
		sp.Res = strings.TrimSpace(rest[:k])
		e, err := ParseExpr(rest[k+1:])
		if err != nil {
			return nil, fmt.Errorf("spec %s: %v", sp.Name, err)
		}
		sp.Body = e
	} else {
		sp.Res = strings.TrimSpace(rest)
	}
	return sp, nil
}

func parseKeyFn(s string) (*KeyFn, error) {
	// PacketReceiptKey(s, d, n) = receipt(s: str, d: str, n: u64)
	parts := strings.SplitN(s, "=", 2)
	if len(parts) != 2 {
		return nil, fmt.Errorf("keyfn F(params) = ctor(arg: sort, ...)")
	}
	lhs := strings.TrimSpace(parts[0])
	i := strings.Index(lhs, "(")
	if i < 0 || !strings.HasSuffix(lhs, ")") {
		return nil, fmt.Errorf("keyfn lhs %q", lhs)
	}
	kf := &KeyFn{Func: strings.TrimSpace(lhs[:i]), Params: splitNames(lhs[i+1 : len(lhs)-1])}
	rhs := strings.TrimSpace(parts[1])
	j := strings.Index(rhs, "(")
	if j < 0 || !strings.HasSuffix(rhs, ")") {
		return nil, fmt.Errorf("keyfn rhs %q", rhs)
	}
	kf.Ctor = strings.TrimSpace(rhs[:j])
	for _, a := range splitTopLevel(rhs[j+1:len(rhs)-1], ',') {
		a = strings.TrimSpace(a)
		if a == "" {
			continue
		}
		k := strings.LastIndex(a, ":")
		if k < 0 {
			return nil, fmt.Errorf("keyfn arg %q needs a sort", a)
		}
		e, err := ParseExpr(a[:k])
		if err != nil {
			return nil, err
		}
		kf.Args = append(kf.Args, e)
		kf.Sorts = append(kf.Sorts, strings.TrimSpace(a[k+1:]))
	}
	return kf, nil
}
