package main

// Bounded check KEYS.injective: the real key builders over a bounded identifier / sequence / height space; backs A-KEYS.

import (
	"encoding/json"
	"fmt"
	"os"
	"os/exec"
	"path/filepath"
	"strings"
	"time"
)

// runOverlayGoTest injects testFile (from /verif/bounded) into pkgRel of the repository as an extra test file and runs it.
func runOverlayGoTest(pkgRel, testFile, injectedName, runPat string, env []string, overlay map[string][]byte, subst map[string]string) (string, error) {
	dir, err := os.MkdirTemp(filepath.Join(verifDir, ".tmp"), "bounded")
	if err != nil {
		return "", err
	}
	defer os.RemoveAll(dir)
	repo := repoDir()
	replace := map[string]string{}
	for p, data := range overlay {
		f := filepath.Join(dir, "ov_"+sanitize(p)+".go")
		os.WriteFile(f, data, 0o644)
		replace[p] = f
	}
	src, err := os.ReadFile(filepath.Join(verifDir, "bounded", testFile))
	if err != nil {
		return "", err
	}
	text := string(src)
	for k, v := range subst {
		text = strings.ReplaceAll(text, k, v)
	}
	tp := filepath.Join(dir, "zz_injected_test.go")
	os.WriteFile(tp, []byte(text), 0o644)
	replace[filepath.Join(repo, pkgRel, injectedName)] = tp
	ov, _ := json.Marshal(map[string]any{"Replace": replace})
	ovp := filepath.Join(dir, "ov.json")
	os.WriteFile(ovp, ov, 0o644)
	cmd := exec.Command("go", "test", "-overlay", ovp, "-vet=off", "-count=1", "-v", "-timeout", "900s", "-run", runPat, "./"+pkgRel+"/")
	cmd.Dir = repo
	cmd.Env = append(append(os.Environ(), "GOFLAGS=-mod=mod", "GOPROXY=off", "GOSUMDB=off", "GOTOOLCHAIN=local"), env...)
	out, runErr := cmd.CombinedOutput()
	return string(out), runErr
}

func init() {
	boundedChecks["KEYS.injective"] = func(tier string, seed int, overlay map[string][]byte) BoundedResult {
		t0 := time.Now()
		res := BoundedResult{Name: "KEYS.injective", Bound: "all store keys built by the real key builders (root store: routing rules, chain name, relayers, next-send, clean point, max-ack, commitment / acknowledgement / receipt; client stores: client state, consensus state, Tendermint processed-time and iteration keys, BSC recent-signer and pending-validators keys, ETH header-index and root-index keys) over ~24 valid chain identifiers (incl. names equal to key prefixes), 9 sequences (0 … 2^64-1), 9x9 heights (incl. values whose encoding contains '/'), 4 hashes: no two different (family, arguments) pairs give the same key"}
		out, runErr := runOverlayGoTest("modules/tibc/core/24-host", "keys_injective_test.go.txt", "zz_keys_bounded_test.go", "TestZZKeysInjective", nil, overlay, nil)
		seen := false
		for _, l := range strings.Split(out, "\n") {
			switch {
			case strings.HasPrefix(l, "KEYCASES "):
				fmt.Sscanf(l, "KEYCASES %d", &res.Cases)
				seen = true
			case strings.HasPrefix(l, "KEYVIOL "):
				rest := strings.TrimPrefix(l, "KEYVIOL ")
				res.Violations = append(res.Violations, BoundedViolation{Key: "collision", Detail: "bounded check KEYS.injective (real key builders):\n  " + rest + "\n"})
			}
		}
		if !seen {
			if len(out) > 3000 {
				out = out[len(out)-3000:]
			}
			res.Violations = append(res.Violations, BoundedViolation{Key: "harness", Detail: fmt.Sprintf("the bounded test did not run to completion (%v):\n%s", runErr, out)})
		}
		res.WallS = time.Since(t0).Seconds()
		return res
	}
}

func init() {
	boundedChecks["bsc.inturn"] = func(tier string, seed int, overlay map[string][]byte) BoundedResult {
		t0 := time.Now()
		n := 300
		if tier == "thorough" {
			n = 6000
		}
		res := BoundedResult{Name: "bsc.inturn", Bound: fmt.Sprintf("%d seeded random validator sets of 1..21 members (every fifth with addresses differing only in the last two bytes), 8 block numbers each (3 structured, 5 random): the real snapshot.inturn against an independent count of smaller addresses, exactly one validator in turn; the real ParseValidators against the listed 20-byte groups; seed %d", n, seed)}
		out, runErr := runOverlayGoTest("modules/tibc/light-clients/08-bsc/types", "bsc_inturn_test.go.txt", "zz_inturn_bounded_test.go", "TestZZBscInturn",
			[]string{fmt.Sprintf("ZZ_N=%d", n), fmt.Sprintf("ZZ_SEED=%d", seed+1)}, overlay, nil)
		seen := false
		for _, l := range strings.Split(out, "\n") {
			switch {
			case strings.HasPrefix(l, "TURNCASES "):
				fmt.Sscanf(l, "TURNCASES %d", &res.Cases)
				seen = true
			case strings.HasPrefix(l, "TURNVIOL "):
				rest := strings.TrimPrefix(l, "TURNVIOL ")
				res.Violations = append(res.Violations, BoundedViolation{Key: strings.SplitN(rest, " ", 2)[0], Detail: "bounded check bsc.inturn (real code):\n  " + rest + "\n"})
			}
		}
		if !seen {
			if len(out) > 3000 {
				out = out[len(out)-3000:]
			}
			res.Violations = append(res.Violations, BoundedViolation{Key: "harness", Detail: fmt.Sprintf("the bounded test did not run to completion (%v):\n%s", runErr, out)})
		}
		res.WallS = time.Since(t0).Seconds()
		return res
	}
}
