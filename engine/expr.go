package main

// Contract expression language: lexer + recursive-descent parser.

import (
	"fmt"
	"strings"
	"unicode"
)

type Binder struct {
	Name string
	Sort string
}

type Expr struct {
	Op      string // ident, num, str, call, method, field, index, update, unop, binop, forall, exists, old, ite, forcalls
	Name    string
	Args    []*Expr
	Binders []Binder
	Pos     int
}

func (e *Expr) String() string {
	switch e.Op {
	case "ident", "num":
		return e.Name
	case "str":
		return fmt.Sprintf("%q", e.Name)
	case "call":
		return e.Name + "(" + joinExprs(e.Args) + ")"
	case "method":
		return e.Args[0].String() + "." + e.Name + "(" + joinExprs(e.Args[1:]) + ")"
	case "field":
		return e.Args[0].String() + "." + e.Name
	case "index":
		return e.Args[0].String() + "[" + e.Args[1].String() + "]"
	case "update":
		return e.Args[0].String() + "[" + e.Args[1].String() + " := " + e.Args[2].String() + "]"
	case "unop":
		return e.Name + e.Args[0].String()
	case "binop":
		return "(" + e.Args[0].String() + " " + e.Name + " " + e.Args[1].String() + ")"
	case "forall", "exists":
		var bs []string
		for _, b := range e.Binders {
			bs = append(bs, b.Name+": "+b.Sort)
		}
		return "(" + e.Op + " " + strings.Join(bs, ", ") + " :: " + e.Args[0].String() + ")"
	case "old":
		return "old(" + e.Args[0].String() + ")"
	case "ite":
		return "ite(" + joinExprs(e.Args) + ")"
	case "forcalls":
		return "(forall " + e.Binders[0].Name + " in calls(" + e.Name + ") :: " + e.Args[0].String() + ")"
	}
	return "?" + e.Op
}

func joinExprs(es []*Expr) string {
	var p []string
	for _, e := range es {
		p = append(p, e.String())
	}
	return strings.Join(p, ", ")
}

type tok struct {
	kind string // id num str op eof
	text string
	pos  int
}

func lex(s string) ([]tok, error) {
	var toks []tok
	i := 0
	for i < len(s) {
		c := rune(s[i])
		switch {
		case unicode.IsSpace(c):
			i++
		case unicode.IsLetter(c) || c == '_':
			j := i
			for j < len(s) && (unicode.IsLetter(rune(s[j])) || unicode.IsDigit(rune(s[j])) || s[j] == '_') {
				j++
			}
			toks = append(toks, tok{"id", s[i:j], i})
			i = j
		case unicode.IsDigit(c):
			j := i
			for j < len(s) && (unicode.IsDigit(rune(s[j])) || unicode.IsLetter(rune(s[j]))) {
				j++
			}
			toks = append(toks, tok{"num", s[i:j], i})
			i = j
		case c == '"':
			j := i + 1
			var b strings.Builder
			for j < len(s) && s[j] != '"' {
				if s[j] == '\\' && j+1 < len(s) {
					j++
					switch s[j] {
					case 'n':
						b.WriteByte('\n')
					case 't':
						b.WriteByte('\t')
					case 'x':
						if j+2 < len(s) {
							var v int
							fmt.Sscanf(s[j+1:j+3], "%02x", &v)
							b.WriteByte(byte(v))
							j += 2
						}
					default:
						b.WriteByte(s[j])
					}
				} else {
					b.WriteByte(s[j])
				}
				j++
			}
			if j >= len(s) {
				return nil, fmt.Errorf("unterminated string at %d", i)
			}
			toks = append(toks, tok{"str", b.String(), i})
			i = j + 1
		default:
			ops := []string{"<==>", "==>", "<=u", ">=u", "<=s", ">=s", "::", ":=", "==", "!=", "<=", ">=", "&&", "||", "++", "<u", ">u", "<s", ">s",
				"<", ">", "+", "-", "*", "/", "%", "!", "(", ")", "[", "]", ",", ".", ":", "#"}
			matched := false
			for _, op := range ops {
				if strings.HasPrefix(s[i:], op) {
					// "<u" must not swallow identifiers like "<unknown": require the char after u/s to be non-letter
					if len(op) >= 2 && (op[len(op)-1] == 'u' || op[len(op)-1] == 's') && (op[0] == '<' || op[0] == '>') {
						if i+len(op) < len(s) && (unicode.IsLetter(rune(s[i+len(op)])) || unicode.IsDigit(rune(s[i+len(op)])) || s[i+len(op)] == '_') {
							continue
						}
					}
					toks = append(toks, tok{"op", op, i})
					i += len(op)
					matched = true
					break
				}
			}
			if !matched {
				return nil, fmt.Errorf("unexpected character %q at %d in %q", c, i, s)
			}
		}
	}
	toks = append(toks, tok{"eof", "", len(s)})
	return toks, nil
}

type parser struct {
	toks []tok
	p    int
	src  string
}

func ParseExpr(s string) (*Expr, error) {
	toks, err := lex(s)
	if err != nil {
		return nil, err
	}
	ps := &parser{toks: toks, src: s}
	e, err := ps.expr()
	if err != nil {
		return nil, fmt.Errorf("%v in %q", err, s)
	}
	if ps.peek().kind != "eof" {
		return nil, fmt.Errorf("trailing input at %d (%q) in %q", ps.peek().pos, ps.peek().text, s)
	}
	return e, nil
}

func (p *parser) peek() tok { return p.toks[p.p] }
func (p *parser) next() tok { t := p.toks[p.p]; p.p++; return t }
func (p *parser) isOp(s string) bool {
	t := p.peek()
	return t.kind == "op" && t.text == s
}
func (p *parser) isId(s string) bool {
	t := p.peek()
	return t.kind == "id" && t.text == s
}
func (p *parser) expect(s string) error {
	if !p.isOp(s) {
		return fmt.Errorf("expected %q at %d, got %q", s, p.peek().pos, p.peek().text)
	}
	p.next()
	return nil
}

func (p *parser) expr() (*Expr, error) {
	if p.isId("forall") || p.isId("exists") {
		q := p.next().text
		// forall c in calls(F) :: e
		if p.toks[p.p+1].kind == "id" && p.toks[p.p+1].text == "in" {
			v := p.next().text
			p.next() // in
			if !p.isId("calls") {
				return nil, fmt.Errorf("expected calls(F)")
			}
			p.next()
			if err := p.expect("("); err != nil {
				return nil, err
			}
			name, err := p.calleeName()
			if err != nil {
				return nil, err
			}
			if err := p.expect(")"); err != nil {
				return nil, err
			}
			if err := p.expect("::"); err != nil {
				return nil, err
			}
			body, err := p.expr()
			if err != nil {
				return nil, err
			}
			op := "forcalls"
			if q == "exists" {
				op = "existscalls"
			}
			return &Expr{Op: op, Name: name, Binders: []Binder{{v, ""}}, Args: []*Expr{body}}, nil
		}
		var bs []Binder
		for {
			n := p.next()
			if n.kind != "id" {
				return nil, fmt.Errorf("binder name expected at %d", n.pos)
			}
			if err := p.expect(":"); err != nil {
				return nil, err
			}
			s := p.next()
			if s.kind != "id" {
				return nil, fmt.Errorf("binder sort expected at %d", s.pos)
			}
			bs = append(bs, Binder{n.text, s.text})
			if p.isOp(",") {
				p.next()
				continue
			}
			break
		}
		if err := p.expect("::"); err != nil {
			return nil, err
		}
		body, err := p.expr()
		if err != nil {
			return nil, err
		}
		return &Expr{Op: q, Binders: bs, Args: []*Expr{body}}, nil
	}
	return p.iff()
}

// calleeName parses "(T).M" | "pkg.(T).M" | "pkg.F" | "F" | "pkg.I.M"
func (p *parser) calleeName() (string, error) {
	var b strings.Builder
	depth := 0
	for {
		t := p.peek()
		if t.kind == "eof" {
			return "", fmt.Errorf("unterminated callee name")
		}
		if t.kind == "op" && t.text == ")" && depth == 0 {
			break
		}
		if t.kind == "op" && t.text == "," && depth == 0 {
			break
		}
		if t.kind == "op" && t.text == "(" {
			depth++
		}
		if t.kind == "op" && t.text == ")" {
			depth--
		}
		b.WriteString(t.text)
		p.next()
	}
	return b.String(), nil
}

func (p *parser) iff() (*Expr, error) {
	l, err := p.imp()
	if err != nil {
		return nil, err
	}
	for p.isOp("<==>") {
		p.next()
		r, err := p.imp()
		if err != nil {
			return nil, err
		}
		l = &Expr{Op: "binop", Name: "<==>", Args: []*Expr{l, r}}
	}
	return l, nil
}

func (p *parser) imp() (*Expr, error) {
	l, err := p.or()
	if err != nil {
		return nil, err
	}
	if p.isOp("==>") {
		p.next()
		var r *Expr
		if p.isId("forall") || p.isId("exists") {
			r, err = p.expr()
		} else {
			r, err = p.imp()
		}
		if err != nil {
			return nil, err
		}
		return &Expr{Op: "binop", Name: "==>", Args: []*Expr{l, r}}, nil
	}
	return l, nil
}

func (p *parser) or() (*Expr, error) {
	l, err := p.and()
	if err != nil {
		return nil, err
	}
	for p.isOp("||") {
		p.next()
		r, err := p.and()
		if err != nil {
			return nil, err
		}
		l = &Expr{Op: "binop", Name: "||", Args: []*Expr{l, r}}
	}
	return l, nil
}

func (p *parser) and() (*Expr, error) {
	l, err := p.cmp()
	if err != nil {
		return nil, err
	}
	for p.isOp("&&") {
		p.next()
		var r *Expr
		if p.isId("forall") || p.isId("exists") {
			r, err = p.expr()
		} else {
			r, err = p.cmp()
		}
		if err != nil {
			return nil, err
		}
		l = &Expr{Op: "binop", Name: "&&", Args: []*Expr{l, r}}
	}
	return l, nil
}

var cmpOps = map[string]bool{"==": true, "!=": true, "<": true, "<=": true, ">": true, ">=": true,
	"<u": true, "<=u": true, ">u": true, ">=u": true, "<s": true, "<=s": true, ">s": true, ">=s": true}

func (p *parser) cmp() (*Expr, error) {
	l, err := p.add()
	if err != nil {
		return nil, err
	}
	if t := p.peek(); t.kind == "op" && cmpOps[t.text] {
		p.next()
		r, err := p.add()
		if err != nil {
			return nil, err
		}
		return &Expr{Op: "binop", Name: t.text, Args: []*Expr{l, r}}, nil
	}
	return l, nil
}

func (p *parser) add() (*Expr, error) {
	l, err := p.mul()
	if err != nil {
		return nil, err
	}
	for p.isOp("+") || p.isOp("-") || p.isOp("++") {
		op := p.next().text
		r, err := p.mul()
		if err != nil {
			return nil, err
		}
		l = &Expr{Op: "binop", Name: op, Args: []*Expr{l, r}}
	}
	return l, nil
}

func (p *parser) mul() (*Expr, error) {
	l, err := p.unary()
	if err != nil {
		return nil, err
	}
	for p.isOp("*") || p.isOp("/") || p.isOp("%") {
		op := p.next().text
		r, err := p.unary()
		if err != nil {
			return nil, err
		}
		l = &Expr{Op: "binop", Name: op, Args: []*Expr{l, r}}
	}
	return l, nil
}

func (p *parser) unary() (*Expr, error) {
	if p.isOp("!") || p.isOp("-") {
		op := p.next().text
		x, err := p.unary()
		if err != nil {
			return nil, err
		}
		return &Expr{Op: "unop", Name: op, Args: []*Expr{x}}, nil
	}
	return p.postfix()
}

func (p *parser) args() ([]*Expr, error) {
	var as []*Expr
	if p.isOp(")") {
		p.next()
		return as, nil
	}
	for {
		a, err := p.expr()
		if err != nil {
			return nil, err
		}
		as = append(as, a)
		if p.isOp(",") {
			p.next()
			continue
		}
		if err := p.expect(")"); err != nil {
			return nil, err
		}
		return as, nil
	}
}

func (p *parser) postfix() (*Expr, error) {
	x, err := p.primary()
	if err != nil {
		return nil, err
	}
	for {
		switch {
		case p.isOp("."):
			p.next()
			n := p.next()
			if n.kind != "id" {
				return nil, fmt.Errorf("field name expected at %d", n.pos)
			}
			if p.isOp("(") {
				p.next()
				as, err := p.args()
				if err != nil {
					return nil, err
				}
				x = &Expr{Op: "method", Name: n.text, Args: append([]*Expr{x}, as...)}
			} else {
				x = &Expr{Op: "field", Name: n.text, Args: []*Expr{x}}
			}
		case p.isOp("["):
			p.next()
			k, err := p.expr()
			if err != nil {
				return nil, err
			}
			if p.isOp(":=") {
				p.next()
				v, err := p.expr()
				if err != nil {
					return nil, err
				}
				if err := p.expect("]"); err != nil {
					return nil, err
				}
				x = &Expr{Op: "update", Args: []*Expr{x, k, v}}
			} else {
				if err := p.expect("]"); err != nil {
					return nil, err
				}
				x = &Expr{Op: "index", Args: []*Expr{x, k}}
			}
		default:
			return x, nil
		}
	}
}

func (p *parser) primary() (*Expr, error) {
	t := p.next()
	switch t.kind {
	case "num":
		return &Expr{Op: "num", Name: t.text, Pos: t.pos}, nil
	case "str":
		return &Expr{Op: "str", Name: t.text, Pos: t.pos}, nil
	case "id":
		if p.isOp("(") {
			p.next()
			switch t.text {
			case "old":
				x, err := p.expr()
				if err != nil {
					return nil, err
				}
				if err := p.expect(")"); err != nil {
					return nil, err
				}
				return &Expr{Op: "old", Args: []*Expr{x}}, nil
			case "called", "ncalls":
				name, err := p.calleeName()
				if err != nil {
					return nil, err
				}
				if err := p.expect(")"); err != nil {
					return nil, err
				}
				return &Expr{Op: t.text, Name: name}, nil
			}
			as, err := p.args()
			if err != nil {
				return nil, err
			}
			if t.text == "ite" {
				if len(as) != 3 {
					return nil, fmt.Errorf("ite needs 3 arguments")
				}
				return &Expr{Op: "ite", Args: as}, nil
			}
			return &Expr{Op: "call", Name: t.text, Args: as, Pos: t.pos}, nil
		}
		return &Expr{Op: "ident", Name: t.text, Pos: t.pos}, nil
	case "op":
		if t.text == "(" {
			x, err := p.expr()
			if err != nil {
				return nil, err
			}
			if err := p.expect(")"); err != nil {
				return nil, err
			}
			return x, nil
		}
	}
	return nil, fmt.Errorf("unexpected token %q at %d", t.text, t.pos)
}
