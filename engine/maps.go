package main

// Go maps: a reference to a cell holding (domain, values) as SMT arrays. Iteration (`range m`) visits the keys of the
// domain in an ARBITRARY order: each Next either ends the loop, and then every key has been visited, or yields some key
// that is in the domain and has not been visited yet. Loop invariants can mention the visited set with visited(k);
// a loop whose outcome depends on the order of iteration cannot meet an order-free postcondition.

import (
	"fmt"
	"go/types"

	"golang.org/x/tools/go/ssa"
)

type MapState struct {
	Dom *Term // (Array K Bool)
	Val *Term // (Array K V)
	T   *types.Map
}

type MapIter struct {
	M       *MapV
	Visited *Cell // heap cell holding the visited set (Array K Bool)
}

func (e *Engine) mapSorts(t *types.Map) (Sort, Sort, bool) {
	ks, ok1 := e.scalarSort(t.Key())
	vs, ok2 := e.scalarSort(t.Elem())
	return ks, vs, ok1 && ok2
}

// scalarSort: the SMT sort of a Go type that is represented by a single term.
func (e *Engine) scalarSort(t types.Type) (Sort, bool) {
	if isByteArrayType(t) {
		return SStr, true
	}
	switch u := t.Underlying().(type) {
	case *types.Basic:
		switch {
		case u.Info()&types.IsBoolean != 0:
			return SBool, true
		case u.Info()&types.IsInteger != 0:
			w, _ := intInfo(u)
			return BV(w), true
		case u.Info()&types.IsString != 0:
			return SStr, true
		}
	case *types.Struct:
		if u.NumFields() == 0 {
			return SBool, true // struct{}: a dummy
		}
	}
	return "", false
}

func isByteArrayType(t types.Type) bool {
	a, ok := t.Underlying().(*types.Array)
	if !ok {
		return false
	}
	b, ok := a.Elem().Underlying().(*types.Basic)
	return ok && b.Kind() == types.Uint8
}

func (e *Engine) newMap(st *State, t *types.Map, name string, empty bool) Val {
	ks, vs, ok := e.mapSorts(t)
	if !ok {
		// contents untracked
		return &MapV{T: t, Id: mk("Obj", e.C.Fresh(name, "Obj"))}
	}
	ds := Sort(fmt.Sprintf("(Array %s Bool)", ks))
	vsrt := Sort(fmt.Sprintf("(Array %s %s)", ks, vs))
	c := st.newCell(name)
	ms := &MapState{T: t}
	if empty {
		ms.Dom = mk(ds, fmt.Sprintf("((as const %s) false)", ds))
	} else {
		ms.Dom = mk(ds, e.C.Fresh(name+"_dom", ds))
	}
	ms.Val = mk(vsrt, e.C.Fresh(name+"_val", vsrt))
	st.heap[c.ID] = ms
	return &MapV{T: t, Id: mk("Obj", e.C.Fresh(name, "Obj")), C: c}
}

func (e *Engine) mapState(st *State, m *MapV) *MapState {
	if m.C == nil {
		return nil
	}
	ms, _ := st.heap[m.C.ID].(*MapState)
	return ms
}

// keyTerm turns a Go value into the term used as a map key / value.
func (e *Engine) scalarTerm(st *State, v Val, s Sort) *Term {
	switch x := v.(type) {
	case *Term:
		if x.S == s {
			return x
		}
		if x.S == "Arr" && s == SStr {
			return mk(SStr, x.T)
		}
	case *StructV:
		if len(x.F) == 0 && s == SBool {
			return tTrue
		}
	}
	unsupported("map key/value %s as %s", valString(v), s)
	return nil
}

func (e *Engine) fromScalar(t *Term, goT types.Type) Val {
	if isByteArrayType(goT) {
		return &Term{S: "Arr", T: t.T}
	}
	if stt, ok := goT.Underlying().(*types.Struct); ok && stt.NumFields() == 0 {
		return &StructV{T: goT}
	}
	r := *t
	if b, ok := goT.Underlying().(*types.Basic); ok && b.Info()&types.IsInteger != 0 {
		_, r.Signed = intInfo(b)
	}
	return &r
}

func (e *Engine) mapUpdate(st *State, fr *Frame, in *ssa.MapUpdate) {
	m, ok := e.eval(st, fr, in.Map).(*MapV)
	if !ok {
		unsupported("MapUpdate on non-map")
	}
	ms := e.mapState(st, m)
	if ms == nil {
		st.notes = append(st.notes, "map update ignored (contents untracked) in "+fr.fn.Name())
		return
	}
	ks, vs, _ := e.mapSorts(m.T)
	k := e.scalarTerm(st, e.eval(st, fr, in.Key), ks)
	v := e.scalarTerm(st, e.eval(st, fr, in.Value), vs)
	st.heap[m.C.ID] = &MapState{
		Dom: mk(ms.Dom.S, fmt.Sprintf("(store %s %s true)", ms.Dom.T, k.T)),
		Val: mk(ms.Val.S, fmt.Sprintf("(store %s %s %s)", ms.Val.T, k.T, v.T)),
		T:   ms.T,
	}
}

func (e *Engine) mapLookup(st *State, fr *Frame, in *ssa.Lookup, m *MapV) Val {
	ms := e.mapState(st, m)
	if ms == nil {
		v := e.freshVal(st, "mapval", m.T.Elem(), 2)
		if in.CommaOk {
			return TupleV{v, mkBool(e.C.Fresh("mapok", SBool))}
		}
		return v
	}
	ks, _, _ := e.mapSorts(m.T)
	k := e.scalarTerm(st, e.eval(st, fr, in.Index), ks)
	present := fmt.Sprintf("(select %s %s)", ms.Dom.T, k.T)
	raw := &Term{S: Sort(arrayValSort(ms.Val.S)), T: fmt.Sprintf("(select %s %s)", ms.Val.T, k.T)}
	val := e.fromScalar(raw, m.T.Elem())
	if in.CommaOk {
		return TupleV{val, mkBool(present)}
	}
	// absent keys read as the zero value: not needed by the code in reach (all lookups use the comma-ok form); the
	// value is left unconstrained for absent keys
	return val
}

func arrayValSort(s Sort) string {
	_, v := arraySorts(s)
	return string(v)
}

func (e *Engine) rangeStartMap(st *State, fr *Frame, in *ssa.Range, m *MapV) Val {
	ms := e.mapState(st, m)
	if ms == nil {
		unsupported("range over a map whose contents are untracked in %s", fr.fn.Name())
	}
	c := st.newCell("visited")
	st.heap[c.ID] = mk(ms.Dom.S, fmt.Sprintf("((as const %s) false)", ms.Dom.S))
	it := &MapIter{M: m, Visited: c}
	fr.mapIters = append(fr.mapIters, it)
	return it
}

func (e *Engine) rangeNextMap(st *State, fr *Frame, in *ssa.Next, it *MapIter) ([]*State, *Outcome) {
	ms := e.mapState(st, it.M)
	ks, _, _ := e.mapSorts(it.M.T)
	vis := st.heap[it.Visited.ID].(*Term)
	// two successors: exhausted / some unvisited key
	done := st.clone()
	dfr := done.top()
	qk := "|q_mk|"
	done.pc = append(done.pc, fmt.Sprintf("(forall ((%s %s)) (=> (select %s %s) (select %s %s)))", qk, ks, ms.Dom.T, qk, vis.T, qk))
	done.path = append(done.path, "next-done")
	dfr.regs[in] = TupleV{tFalse, e.zeroVal(it.M.T.Key()), e.zeroVal(it.M.T.Elem())}
	k := &Term{S: ks, T: e.C.Fresh("mapkey", ks)}
	st.assume(fmt.Sprintf("(select %s %s)", ms.Dom.T, k.T))
	st.assume(fmt.Sprintf("(not (select %s %s))", vis.T, k.T))
	st.heap[it.Visited.ID] = mk(vis.S, fmt.Sprintf("(store %s %s true)", vis.T, k.T))
	st.path = append(st.path, "next-key")
	raw := &Term{S: Sort(arrayValSort(ms.Val.S)), T: fmt.Sprintf("(select %s %s)", ms.Val.T, k.T)}
	fr.regs[in] = TupleV{tTrue, e.fromScalar(k, it.M.T.Key()), e.fromScalar(raw, it.M.T.Elem())}
	return []*State{st, done}, nil
}

// mapLen: len(m) as an uninterpreted cardinality of the domain (non-negative; 0 for the empty map constant).
func (e *Engine) mapLen(st *State, x *MapV) *Term {
	if x.Id == nil {
		return mkBV(64, bvLit(0, 64), true)
	}
	if ms := e.mapState(st, x); ms != nil {
		name := "map_card_" + sanitize(string(ms.Dom.S))
		e.C.DeclareFun(name, []Sort{ms.Dom.S}, BV(64))
		l := mkBV(64, "("+name+" "+ms.Dom.T+")", true)
		st.assume("(bvsge " + l.T + " #x0000000000000000)")
		return l
	}
	e.C.DeclareFun("map_len", []Sort{"Obj"}, BV(64))
	l := mkBV(64, "(map_len "+x.Id.T+")", true)
	st.assume("(bvsge " + l.T + " #x0000000000000000)")
	return l
}
