package main

// SMT layer: sorts, declarations, query emission and the solver race.

import (
	"bytes"
	"context"
	"fmt"
	"os"
	"os/exec"
	"path/filepath"
	"sort"
	"strings"
	"sync"
	"time"
)

type Sort string

const (
	SBool  Sort = "Bool"
	SInt   Sort = "Int"
	SStr   Sort = "Str"
	SBytes Sort = "Bytes"
	SErr   Sort = "Err"
	SKey   Sort = "Key"
	SOpt   Sort = "Opt"
	SStore Sort = "(Array Key Opt)"
)

func BV(w int) Sort { return Sort(fmt.Sprintf("(_ BitVec %d)", w)) }

func (s Sort) BVWidth() int {
	var w int
	if _, err := fmt.Sscanf(string(s), "(_ BitVec %d)", &w); err == nil {
		return w
	}
	return 0
}

// SMTCtx collects every declaration made while generating the VCs of one check run.
type SMTCtx struct {
	mu       sync.Mutex
	sorts    []string          // uninterpreted sorts
	sortSet  map[string]bool
	decls    []string          // declare-fun / declare-const lines, in order
	declSet  map[string]Sort   // name -> result sort
	axioms   []string          // global axioms (quantified or ground)
	lits     map[string]string // string literal -> const name
	litOrder []string
	keyCtors []KeyCtor
	keyIdx   map[string]int
	defs     []string // define-fun lines (spec functions with bodies)
	n        int
}

type KeyCtor struct {
	Name string
	Args []Sort
}

func NewSMTCtx() *SMTCtx {
	return &SMTCtx{sortSet: map[string]bool{}, declSet: map[string]Sort{}, lits: map[string]string{}, keyIdx: map[string]int{}}
}

func sanitize(s string) string {
	var b strings.Builder
	for _, r := range s {
		switch {
		case r >= 'a' && r <= 'z', r >= 'A' && r <= 'Z', r >= '0' && r <= '9', r == '_':
			b.WriteRune(r)
		default:
			b.WriteByte('_')
		}
	}
	out := b.String()
	if len(out) > 48 {
		out = out[len(out)-48:]
	}
	return out
}

func (c *SMTCtx) Fresh(prefix string, s Sort) string {
	c.mu.Lock()
	defer c.mu.Unlock()
	c.n++
	name := fmt.Sprintf("%s!%d", sanitize(prefix), c.n)
	name = "|" + name + "|"
	c.decls = append(c.decls, fmt.Sprintf("(declare-const %s %s)", name, s))
	c.declSet[name] = s
	return name
}

func (c *SMTCtx) DeclareSort(name string) {
	c.mu.Lock()
	defer c.mu.Unlock()
	if c.sortSet[name] {
		return
	}
	c.sortSet[name] = true
	c.sorts = append(c.sorts, name)
}

// DeclareFun declares an uninterpreted function once.
func (c *SMTCtx) DeclareFun(name string, args []Sort, res Sort) {
	c.mu.Lock()
	defer c.mu.Unlock()
	if _, ok := c.declSet[name]; ok {
		return
	}
	c.declSet[name] = res
	as := make([]string, len(args))
	for i, a := range args {
		as[i] = string(a)
	}
	c.decls = append(c.decls, fmt.Sprintf("(declare-fun %s (%s) %s)", name, strings.Join(as, " "), res))
}

func (c *SMTCtx) DefineFun(name string, params []string, res Sort, body string) {
	c.mu.Lock()
	defer c.mu.Unlock()
	if _, ok := c.declSet[name]; ok {
		return
	}
	c.declSet[name] = res
	c.defs = append(c.defs, fmt.Sprintf("(define-fun %s (%s) %s %s)", name, strings.Join(params, " "), res, body))
}

func (c *SMTCtx) Axiom(a string) {
	c.mu.Lock()
	defer c.mu.Unlock()
	c.axioms = append(c.axioms, a)
}

func (c *SMTCtx) AddKeyCtor(name string, args []Sort) {
	c.mu.Lock()
	defer c.mu.Unlock()
	if _, ok := c.keyIdx[name]; ok {
		return
	}
	c.keyIdx[name] = len(c.keyCtors)
	c.keyCtors = append(c.keyCtors, KeyCtor{name, args})
}

func (c *SMTCtx) KeyCtorByName(name string) (KeyCtor, bool) {
	i, ok := c.keyIdx[name]
	if !ok {
		return KeyCtor{}, false
	}
	return c.keyCtors[i], true
}

// StrLit returns the constant standing for a Go string literal. Literals are pairwise
// distinct and have their concrete length.
func (c *SMTCtx) StrLit(s string) string {
	c.mu.Lock()
	defer c.mu.Unlock()
	if n, ok := c.lits[s]; ok {
		return n
	}
	var name string
	if s == "" {
		name = "str_empty"
	} else {
		name = fmt.Sprintf("|lit%d_%s|", len(c.litOrder), sanitize(s))
	}
	c.lits[s] = name
	c.litOrder = append(c.litOrder, s)
	return name
}

func bvLit(v uint64, w int) string {
	switch w {
	case 64:
		return fmt.Sprintf("#x%016x", v)
	case 32:
		return fmt.Sprintf("#x%08x", uint32(v))
	case 16:
		return fmt.Sprintf("#x%04x", uint16(v))
	case 8:
		return fmt.Sprintf("#x%02x", uint8(v))
	}
	return fmt.Sprintf("(_ bv%d %d)", v, w)
}

// Prelude renders every declaration. extra are per-query lines.
func (c *SMTCtx) Prelude() string { return c.PreludeQ(true) }

// PreludeQ renders the declarations; quant selects whether the quantified library axioms are included.
func (c *SMTCtx) PreludeQ(quant bool) string {
	c.mu.Lock()
	defer c.mu.Unlock()
	var b strings.Builder
	b.WriteString("(set-option :produce-models true)\n(set-logic ALL)\n")
	b.WriteString("(declare-sort Str 0)\n(declare-sort Err 0)\n")
	for _, s := range c.sorts {
		fmt.Fprintf(&b, "(declare-sort %s 0)\n", s)
	}
	b.WriteString("(declare-datatypes ((Bytes 0)) (((mkB (bnil Bool) (bstr Str)))))\n")
	b.WriteString("(declare-datatypes ((Opt 0)) (((none) (some (val Str)))))\n")
	// Key datatype
	b.WriteString("(declare-datatypes ((Key 0)) ((")
	b.WriteString("(k_raw (raw_of Str))")
	for _, k := range c.keyCtors {
		fmt.Fprintf(&b, " (%s", k.Name)
		for i, a := range k.Args {
			fmt.Fprintf(&b, " (%s_%d %s)", k.Name, i, a)
		}
		b.WriteString(")")
	}
	b.WriteString(")))\n")
	b.WriteString("(declare-fun slen (Str) (_ BitVec 64))\n(declare-fun cat (Str Str) Str)\n(declare-const str_empty Str)\n")
	b.WriteString("(declare-const err_nil Err)\n(declare-fun wrap (Err Int) Err)\n(declare-fun is_sentinel (Err) Bool)\n")
	b.WriteString("(declare-fun be64 ((_ BitVec 64)) Str)\n(declare-fun unbe64 (Str) (_ BitVec 64))\n")
	b.WriteString("(declare-fun sha256 (Str) Str)\n")
	b.WriteString("(declare-fun itoa ((_ BitVec 64)) Str)\n")
	b.WriteString("(assert (= (slen str_empty) #x0000000000000000))\n")
	if quant {
		b.WriteString("(assert (forall ((x (_ BitVec 64))) (! (= (unbe64 (be64 x)) x) :pattern ((be64 x)))))\n")
		b.WriteString("(assert (forall ((x (_ BitVec 64))) (! (= (slen (be64 x)) #x0000000000000008) :pattern ((be64 x)))))\n")
		b.WriteString("(assert (forall ((x Str)) (! (= (slen (sha256 x)) #x0000000000000020) :pattern ((sha256 x)))))\n")
		b.WriteString("(assert (forall ((x Str)) (! (= (cat str_empty x) x) :pattern ((cat str_empty x)))))\n")
		b.WriteString("(assert (forall ((x Str)) (! (= (cat x str_empty) x) :pattern ((cat x str_empty)))))\n")
	}
	b.WriteString("(assert (not (is_sentinel err_nil)))\n")
	for i, s := range c.litOrder {
		n := c.lits[s]
		if s != "" {
			fmt.Fprintf(&b, "(declare-const %s Str)\n", n)
			fmt.Fprintf(&b, "(assert (= (slen %s) %s))\n", n, bvLit(uint64(len(s)), 64))
		}
		_ = i
	}
	if len(c.litOrder) > 1 {
		b.WriteString("(assert (distinct")
		for _, s := range c.litOrder {
			b.WriteString(" " + c.lits[s])
		}
		b.WriteString("))\n")
	}
	for _, d := range c.decls {
		b.WriteString(d + "\n")
	}
	for _, d := range c.defs {
		b.WriteString(d + "\n")
	}
	for _, a := range c.axioms {
		fmt.Fprintf(&b, "(assert %s)\n", a)
	}
	return b.String()
}

// ---------------------------------------------------------------------------------------------
// solver race

type SolverCfg struct {
	Name string
	Args []string
	// Transform adapts the query text (e.g. cvc5 needs no changes today)
}

var solverCfgs = []SolverCfg{
	{"z3-new", []string{"z3-new", "-smt2"}},
	{"z3-new-mbqi", []string{"z3-new", "-smt2", "smt.mbqi=true", "smt.ematching=false"}},
	{"cvc5", []string{"cvc5", "--lang=smt2", "--strings-exp"}},
	{"z3-4.8", []string{"z3", "-smt2"}},
}

type SolveResult struct {
	Status string // unsat | sat | unknown
	Solver string
	Secs   float64
	Model  string
	Raw    map[string]string // solver -> first line (thorough agreement)
}

func runSolver(ctx context.Context, cfg SolverCfg, file string, timeoutS int) (status, out string) {
	args := append([]string{}, cfg.Args[1:]...)
	switch {
	case strings.HasPrefix(cfg.Name, "z3"):
		args = append(args, fmt.Sprintf("-T:%d", timeoutS))
	case cfg.Name == "cvc5":
		args = append(args, fmt.Sprintf("--tlimit=%d", timeoutS*1000))
	}
	args = append(args, file)
	// at most one running solver per core: a solver's time limit then measures its own work, not the load of the race
	select {
	case solverSlots <- struct{}{}:
		defer func() { <-solverSlots }()
	case <-ctx.Done():
		return "unknown", "cancelled"
	}
	cmd := exec.CommandContext(ctx, cfg.Args[0], args...)
	var buf bytes.Buffer
	cmd.Stdout = &buf
	cmd.Stderr = &buf
	_ = cmd.Run()
	out = buf.String()
	first := strings.TrimSpace(strings.SplitN(out, "\n", 2)[0])
	switch first {
	case "unsat", "sat":
		return first, out
	}
	if strings.HasPrefix(first, "(error") {
		return "error", out
	}
	return "unknown", out
}

// Solve races all configurations on one query. First definite answer wins.
func Solve(dir, name, query string, timeoutS int, agree bool) SolveResult {
	file := filepath.Join(dir, sanitize(name)+fmt.Sprintf("_%d.smt2", time.Now().UnixNano()%1000000))
	full := query + "\n(check-sat)\n(get-model)\n"
	if err := os.WriteFile(file, []byte(full), 0o644); err != nil {
		return SolveResult{Status: "unknown", Model: err.Error()}
	}
	defer func() {
		if os.Getenv("TIBCVC_KEEP") == "" {
			os.Remove(file)
		}
	}()
	ctx, cancel := context.WithCancel(context.Background())
	defer cancel()
	type ans struct {
		cfg    string
		status string
		out    string
		secs   float64
	}
	ch := make(chan ans, len(solverCfgs))
	start := time.Now()
	// first a single fast configuration alone (most obligations are decided by it in well under a second);
	// the full race only when it gives no definite answer. With `agree` all configurations always run.
	if !agree {
		lead := solverCfgs[2] // cvc5: best at refuting
		if strings.HasPrefix(name, "cover_") {
			lead = solverCfgs[0] // z3 5.1: best at finding models
		}
		lt := 3
		if timeoutS < lt {
			lt = timeoutS
		}
		s, o := runSolver(ctx, lead, file, lt)
		if s == "unsat" || s == "sat" {
			r := SolveResult{Status: s, Solver: lead.Name, Secs: time.Since(start).Seconds(), Raw: map[string]string{lead.Name: s}}
			if s == "sat" {
				r.Model = o
			}
			return r
		}
	}
	for _, cfg := range solverCfgs {
		go func(cfg SolverCfg) {
			t0 := time.Now()
			s, o := runSolver(ctx, cfg, file, timeoutS)
			ch <- ans{cfg.Name, s, o, time.Since(t0).Seconds()}
		}(cfg)
	}
	res := SolveResult{Status: "unknown", Raw: map[string]string{}}
	got := 0
	for got < len(solverCfgs) {
		a := <-ch
		got++
		res.Raw[a.cfg] = a.status
		if a.status == "error" {
			res.Raw[a.cfg] = "error: " + strings.TrimSpace(strings.SplitN(a.out, "\n", 2)[0])
		}
		if a.status == "unsat" || a.status == "sat" {
			if res.Status == "unknown" {
				res.Status = a.status
				res.Solver = a.cfg
				res.Secs = a.secs
				if a.status == "sat" {
					res.Model = a.out
				}
				if !agree {
					cancel()
					break
				}
			} else if res.Status != a.status {
				res.Status = "disagree"
				res.Model = fmt.Sprintf("solver disagreement: %v", res.Raw)
			} else if a.status == "sat" && res.Model == "" {
				res.Model = a.out
			}
		}
	}
	if res.Status == "unknown" {
		res.Secs = time.Since(start).Seconds()
	}
	return res
}

func sortedKeys[V any](m map[string]V) []string {
	ks := make([]string, 0, len(m))
	for k := range m {
		ks = append(ks, k)
	}
	sort.Strings(ks)
	return ks
}
