package main

// seqObjCached: one opaque sequence term per concrete slice value (by identity), so that several mentions of the
// same slice in one contract denote the same sequence.
func (e *Engine) seqObjCached(st *State, x *SliceV) *Term {
	e.mu.Lock()
	if e.seqCache == nil {
		e.seqCache = map[*SliceV]*Term{}
	}
	t, ok := e.seqCache[x]
	e.mu.Unlock()
	if ok {
		return t
	}
	t = e.seqObjG(st, x, true)
	e.mu.Lock()
	e.seqCache[x] = t
	e.mu.Unlock()
	return t
}
