package main

// Engine: verification of one function against its contract, lemma scripts, obligations.

import (
	"fmt"
	"go/types"
	"os"
	"runtime/debug"
	"sort"
	"strings"
	"sync"

	"golang.org/x/tools/go/ssa"
)

type Obligation struct {
	Name    string // stable name: pkg.Func#label
	Kind    string
	Desc    string
	Path    string
	Props   []string
	Hyps    []string
	Goal    string
	Status  string // discharged | failed | undischarged | error
	Solver  string
	Secs    float64
	Model   string
	Func    string
	Tainted []string
	Cover   bool // a cover obligation: must be SAT
	Known   string
	QueryNo int
	RawQuery string // complete SMT-LIB text (string-theory lemmas); unsat = discharged
	Tagged   bool   // the clause carries a clause-level [Cxx] tag (exclusive ownership)
}

type Engine struct {
	W  *World
	C  *SMTCtx
	mu sync.Mutex

	obls          []*Obligation
	curName       string
	curFunc       string
	sentinels     map[string]bool
	sentinelList  []string
	wrapSite      int
	usedExterns   map[string]bool
	usedWires     map[string]bool
	usedSpecs     map[string]bool
	inlined       map[string]bool
	contractCalls map[string]bool
	noiseCalls    map[string]bool
	havocked      map[string]bool
	unrolled      map[string]bool
	inlineOverride map[string]bool
	entryVals     map[*Frame][]Val
	eventsUsed    bool
	errors        []string
	funcsVerified []string
	pathCount     map[string]int
	coverDone     map[string]bool
	subCtors      []string
	seqCache      map[*SliceV]*Term
	trusted       map[string]bool
	axiomsUsed    []string

	MaxPaths      int
	DefaultUnroll int
	PruneSMT      bool
	PruneFrom     int
	TimeoutS      int
	Agree         bool
	TmpDir        string
}

func NewEngine(w *World) *Engine {
	e := &Engine{W: w, C: NewSMTCtx(), sentinels: map[string]bool{}, usedExterns: map[string]bool{}, usedWires: map[string]bool{},
		usedSpecs: map[string]bool{}, inlined: map[string]bool{}, contractCalls: map[string]bool{}, noiseCalls: map[string]bool{},
		havocked: map[string]bool{}, unrolled: map[string]bool{}, inlineOverride: map[string]bool{}, entryVals: map[*Frame][]Val{},
		pathCount: map[string]int{}, coverDone: map[string]bool{}, trusted: map[string]bool{}, MaxPaths: 4000, DefaultUnroll: 2, TimeoutS: 10}
	e.C.DeclareSort("Obj")
	for _, s := range w.Sorts {
		e.C.DeclareSort(s)
	}
	// key constructors are declared up front so that contracts may use them before any builder is called
	for _, k := range sortedKeys(w.KeyFns) {
		kf := w.KeyFns[k]
		var sorts []Sort
		if kf.Sub {
			sorts = append(sorts, SStr)
		}
		for _, s := range kf.Sorts {
			sorts = append(sorts, e.sortByName(s))
		}
		if kf.Ctor != "clientPrefix" {
			e.C.AddKeyCtor(kf.Ctor, sorts)
			if kf.Sub {
				e.subCtors = append(e.subCtors, kf.Ctor)
			}
		}
	}
	// keys written through a client store without a declared builder, and the relayer registry's entries
	e.C.AddKeyCtor("clientRaw", []Sort{SStr, SStr})
	e.subCtors = append(e.subCtors, "clientRaw")
	e.C.AddKeyCtor("relayers", []Sort{SStr})
	e.C.AddKeyCtor("prefixed", []Sort{SStr, SStr})
	for _, kc := range w.KeyCtorDecls {
		var sorts []Sort
		for _, s := range kc.Sorts {
			sorts = append(sorts, e.sortByName(s))
		}
		e.C.AddKeyCtor(kc.Name, sorts)
	}
	// `axiom` clauses of contract/spec files: closed formulas over spec functions, assumed globally (listed in evidence)
	for i, ax := range w.Axioms {
		func() {
			defer func() {
				if r := recover(); r != nil {
					e.errors = append(e.errors, fmt.Sprintf("axiom %s: %v", ax.Label, r))
				}
			}()
			cell := 0
			st := &State{heap: map[int]Val{}, nextCell: &cell, ghost: map[string]*Term{}}
			env := e.newEnv(st, w.AxiomPkg[i])
			e.C.Axiom(e.evalBool(env, ax.E))
			e.axiomsUsed = append(e.axiomsUsed, ax.Label+": "+ax.Src)
		}()
	}
	return e
}

// eventsPrelude: datatypes for the ghost event log
const eventsPrelude = `(declare-datatypes ((AttrL 0)) (((anil) (acons (ak Str) (av Str) (atl AttrL)))))
(declare-datatypes ((Ev 0)) (((mk_ev (ev_type Str) (ev_attrs AttrL)))))
(declare-datatypes ((EvLog 0)) (((enil) (econs (ehd Ev) (etl EvLog)))))
`

func (e *Engine) initialGhost() map[string]*Term {
	g := map[string]*Term{}
	for _, name := range e.W.GhostOrd {
		s := e.ghostSort(name)
		n := "|" + name + "_0|"
		e.C.DeclareFun(n, nil, s)
		g[name] = mk(s, n)
	}
	return g
}

func (e *Engine) oblige(st *State, name, kind, goal, desc string, props []string) {
	o := &Obligation{Name: name, Kind: kind, Desc: desc, Goal: goal, Hyps: append([]string{}, st.pc...), Path: strings.Join(st.path, "."),
		Props: props, Func: e.curFunc, Tainted: append([]string{}, st.tainted...)}
	e.mu.Lock()
	e.obls = append(e.obls, o)
	e.mu.Unlock()
}

func (e *Engine) fail(name, msg string) {
	o := &Obligation{Name: name, Kind: "engine", Desc: msg, Status: "error", Func: e.curFunc, Model: msg}
	e.mu.Lock()
	e.obls = append(e.obls, o)
	e.errors = append(e.errors, name+": "+msg)
	e.mu.Unlock()
}

// VerifyFunc generates every obligation of one function under contract.
func (e *Engine) VerifyFunc(key string) {
	fc := e.W.Contract[key]
	name := shortKey(key)
	e.curName = name
	e.curFunc = name
	if fc == nil {
		e.fail(name+"#contract.target", "no contract for "+key)
		return
	}
	if fc.IsExtern {
		return
	}
	fn := e.W.LookupFunc(key)
	if fn == nil || fn.Blocks == nil {
		e.fail(name+"#contract.target", fmt.Sprintf("contract %s (%s:%d) has no function in the loaded packages", fc.Target, fc.File, fc.Line))
		return
	}
	defer func() {
		if r := recover(); r != nil {
			if u, ok := r.(*Unsupported); ok {
				e.fail(name+"#engine.unsupported", u.Msg)
				return
			}
			e.fail(name+"#engine.panic", fmt.Sprintf("%v\n%s", r, debug.Stack()))
		}
	}()
	e.funcsVerified = append(e.funcsVerified, name)
	cell := 0
	st := &State{heap: map[int]Val{}, nextCell: &cell}
	st.ghost = e.initialGhost()
	st.ghostOld = map[string]*Term{}
	for k, v := range st.ghost {
		st.ghostOld[k] = v
	}
	// parameters
	var args []Val
	off := 0
	if fn.Signature.Recv() != nil {
		off = 1
	}
	if len(fc.Params) != len(fn.Params)-off {
		e.fail(name+"#contract.target", fmt.Sprintf("contract lists %d parameters, function has %d", len(fc.Params), len(fn.Params)-off))
		return
	}
	for i, p := range fn.Params {
		pname := p.Name()
		var v Val
		if i >= off {
			cn := fc.Params[i-off]
			if dt, ok := fc.Dyn[cn]; ok {
				T, err := e.W.LookupType(fc.Pkg, dt)
				if err != nil {
					e.fail(name+"#contract.dyn", err.Error())
					return
				}
				v = &IfaceV{Dyn: T, V: e.freshVal(st, pname, T, 0)}
			}
		}
		if v == nil {
			v = e.freshVal(st, pname, p.Type(), 0)
		}
		args = append(args, v)
	}
	fr := e.pushFrame(st, fn, args, nil, nil)
	fr.fc = fc
	e.entryVals[fr] = args
	env := e.newEnv(st, fc.Pkg)
	env.fr = fr
	e.bindContractVars(env, fr)
	for _, rq := range fc.Requires {
		st.assume(e.evalBool(env, rq.E))
	}
	entryVars := env.vars
	// pointees of pointer parameters at entry (cell contents are immutable values: updates replace them)
	type heapSnap struct {
		name string
		cell *Cell
		val  Val
	}
	var heapIn []heapSnap
	for i, p := range fn.Params {
		pv, ok := args[i].(*PtrV)
		if !ok || pv.C == nil || len(pv.Path) != 0 {
			continue
		}
		pn := p.Name()
		if i >= off {
			pn = fc.Params[i-off]
		} else {
			pn = "self"
		}
		if fc.Dyn["mutates:"+pn] == "" {
			heapIn = append(heapIn, heapSnap{pn, pv.C, st.heap[pv.C.ID]})
		}
	}
	npaths := 0
	e.run(st, 1, func(o *Outcome) {
		npaths++
		if o.Panicked {
			if fc.Flags["nopanic"] {
				e.oblige(o.St, name+"#nopanic", "nopanic", "false", "no panic reachable under the precondition: "+o.St.panicMsg, fc.Props)
			}
			return
		}
		penv := e.newEnv(o.St, fc.Pkg)
		penv.old = o.St.ghostOld
		for k, v := range entryVars {
			penv.vars[k] = v
		}
		for i, rn := range fc.Results {
			if i < len(o.Results) {
				penv.vars[rn] = o.Results[i]
			}
		}
		if _, taken := penv.vars["result"]; len(o.Results) == 1 && !taken {
			penv.vars["result"] = o.Results[0]
		}
		func() {
			defer func() {
				if r := recover(); r != nil {
					if u, ok := r.(*Unsupported); ok {
						e.fail(name+"#engine.unsupported", "post-state evaluation: "+u.Msg)
						return
					}
					if nd, ok := r.(*NilDeref); ok {
						// a clause reads through a nil pointer on this path: acceptable only if the path is infeasible
						e.oblige(o.St, name+"#contract.nilpath", "ensures", "false", "a contract clause dereferences nil here ("+nd.Msg+"): this path must be infeasible", fc.Props)
						return
					}
					panic(r)
				}
			}()
			for _, ld := range fc.PostLets {
				penv.vars[ld.Name] = e.evalExpr(penv, ld.E)
			}
			// heap frame: a pointer parameter not listed under `mutates` still points to what it pointed to at entry
			// (call sites rely on this: they keep the pointee as it was)
			for _, hs := range heapIn {
				now := o.St.heap[hs.cell.ID]
				if now == hs.val {
					continue
				}
				g := "false"
				func() {
					defer func() {
						if r := recover(); r != nil {
							if _, ok := r.(*Unsupported); !ok {
								panic(r)
							}
						}
					}()
					g = e.valEq(o.St, now, hs.val)
				}()
				e.oblige(o.St, name+"#frame.heap."+hs.name, "frame", g, "the object parameter "+hs.name+" points to is unchanged on return (it is not listed under `mutates`)", fc.Props)
			}
			for i, rn := range fc.Results {
				if p := fc.Dyn["alias:"+rn]; p != "" && i < len(o.Results) {
					// `alias result = param`: the returned pointer is nil or the parameter itself
					g := smtOr(e.isNilTerm(o.St, o.Results[i]), e.valEq(o.St, o.Results[i], entryVars[p]))
					e.oblige(o.St, name+"#alias."+rn, "ensures", g, "alias "+rn+" = "+p+": the returned pointer is nil or the parameter itself", fc.Props)
				}
			}
			for _, en := range fc.Ensures {
				if en.Known == "trusted" {
					e.mu.Lock()
					e.trusted[name+"#"+en.Label+": "+en.Src] = true
					e.mu.Unlock()
					continue
				}
				g := e.evalBool(penv, en.E)
				props := en.Props
				if len(props) == 0 {
					props = fc.Props
				}
				e.oblige(o.St, name+"#"+en.Label, "ensures", g, en.Src, props)
				e.obls[len(e.obls)-1].Known = en.Known
				e.obls[len(e.obls)-1].Tagged = len(en.Props) > 0
			}
			// frame: ghost variables not listed in modifies are unchanged
			if !fc.ModAll {
				mod := map[string]bool{}
				for _, m := range fc.Modifies {
					mod[m] = true
				}
				for _, g := range e.W.GhostOrd {
					if mod[g] {
						continue
					}
					if o.St.ghost[g].T != o.St.ghostOld[g].T {
						e.oblige(o.St, name+"#frame."+g, "frame", smtEq(o.St.ghost[g].T, o.St.ghostOld[g].T), "ghost state "+g+" is not in modifies and must be unchanged", fc.Props)
					}
				}
			}
			// vacuity: at least one returning path is reachable under the precondition
			e.oblige(o.St, name+"#vacuity.reach", "cover", "true", "some returning path is satisfiable under the precondition and the callee contracts (must be sat)", fc.Props)
			e.obls[len(e.obls)-1].Cover = true
			for _, cv := range fc.Covers {
				g := e.evalBool(penv, cv.E)
				e.oblige(o.St, name+"#cover."+cv.Label, "cover", g, cv.Src, fc.Props)
				e.obls[len(e.obls)-1].Cover = true
			}
		}()
	})
	e.pathCount[name] = npaths
	if npaths == 0 {
		e.fail(name+"#vacuity.paths", "no path reaches a return")
	}
}

// RunLemma executes a lemma script: a ghost program over contracts.
func (e *Engine) RunLemma(l *Lemma) {
	name := "lemma." + l.Name
	e.curName = name
	e.curFunc = name
	defer func() {
		if r := recover(); r != nil {
			if u, ok := r.(*Unsupported); ok {
				e.fail(name+"#engine.unsupported", u.Msg)
				return
			}
			e.fail(name+"#engine.panic", fmt.Sprintf("%v\n%s", r, debug.Stack()))
		}
	}()
	cell := 0
	st := &State{heap: map[int]Val{}, nextCell: &cell}
	st.ghost = e.initialGhost()
	st.ghostOld = map[string]*Term{}
	for k, v := range st.ghost {
		st.ghostOld[k] = v
	}
	env := e.newEnv(st, l.Pkg)
	nshow := 0
	for i, s := range l.Steps {
		switch s.Kind {
		case "fresh":
			env.vars[s.Name] = e.freshByTypeName(st, l.Pkg, s.Name, s.Type)
		case "let":
			env.vars[s.Name] = e.evalExpr(env, s.E)
		case "assume":
			st.assume(e.evalBool(env, s.E))
		case "havoc":
			st.ghost[s.Name] = e.freshGhost(s.Name)
		case "set":
			if _, ok := e.W.Ghosts[s.Name]; !ok {
				unsupported("set: %q is not a ghost variable", s.Name)
			}
			st.ghost[s.Name] = e.coerceTo(env, e.evalExpr(env, s.E), e.ghostSort(s.Name))
		case "show":
			nshow++
			lbl := s.Label
			if lbl == "" {
				lbl = fmt.Sprintf("show%d", nshow)
			}
			g := e.evalBool(env, s.E)
			e.oblige(st, name+"#"+lbl, "lemma", g, s.Src, l.Props)
			st.assume(g)
		case "call":
			e.lemmaCall(st, env, l, s, i)
		}
	}
	if nshow == 0 {
		e.fail(name+"#vacuity", "lemma has no show step")
	}
	// vacuity: the hypotheses accumulated by the script (assumes, callee contracts, proved shows) are satisfiable
	e.oblige(st, name+"#vacuity.sat", "cover", "true", "the lemma's hypotheses are jointly satisfiable (must be sat)", l.Props)
	e.obls[len(e.obls)-1].Cover = true
}

func (e *Engine) freshByTypeName(st *State, pkg, name, tn string) Val {
	switch tn {
	case "u64", "u8", "u32", "bool", "str", "bytes", "key", "opt", "store", "err", "Int", "i64", "obj":
		s := e.sortByName(tn)
		t := &Term{S: s, T: e.C.Fresh(name, s), Signed: signedSortName(tn)}
		if s == SBytes {
			st.assume(fmt.Sprintf("(=> (bnil %s) (= (bstr %s) str_empty))", t.T, t.T))
		}
		return t
	}
	if strings.HasPrefix(tn, "iface ") {
		// "iface pkg.Iface = pkg.Concrete"
		parts := strings.SplitN(strings.TrimPrefix(tn, "iface "), "=", 2)
		T, err := e.W.LookupType(pkg, strings.TrimSpace(parts[len(parts)-1]))
		if err != nil {
			unsupported("%v", err)
		}
		return &IfaceV{Dyn: T, V: e.freshVal(st, name, T, 0)}
	}
	T, err := e.W.LookupType(pkg, tn)
	if err != nil {
		// maybe a declared sort
		s := e.sortByName(tn)
		return &Term{S: s, T: e.C.Fresh(name, s)}
	}
	return e.freshVal(st, name, T, 0)
}

// lemmaCall applies the modular call rule to a contract inside a lemma: assume requires (a lemma talks about
// calls that are made within their preconditions), havoc modifies, assume ensures.
func (e *Engine) lemmaCall(st *State, env *Env, l *Lemma, s LemmaStep, idx int) {
	cf := &ContractFile{Pkg: l.Pkg}
	var fc *FuncContract
	var fn *ssa.Function
	var key string
	callee := strings.ReplaceAll(s.Callee, " ", "")
	if k, err := e.W.resolveFuncTarget(cf, callee); err == nil {
		if c := e.W.Contract[k]; c != nil {
			fc, key = c, k
			fn = e.W.LookupFunc(k)
		}
	}
	if fc == nil {
		if k, err := e.W.resolveIfaceTarget(cf, callee); err == nil {
			if c := e.W.IfaceC[k]; c != nil {
				fc, key = c, "iface:"+k
			}
		}
	}
	if fc == nil {
		unsupported("lemma %s: no contract for %q", l.Name, s.Callee)
	}
	var args []Val
	for _, a := range s.Args {
		args = append(args, e.evalExpr(env, a))
	}
	// a lemma frame to receive results
	cenv := e.newEnv(st, fc.Pkg)
	off := 0
	if fn != nil && fn.Signature.Recv() != nil || fc.IsIface {
		off = 1
		if len(args) > 0 {
			cenv.vars["self"] = args[0]
		}
	}
	if len(args)-off != len(fc.Params) {
		unsupported("lemma %s: call %s needs %d arguments (plus receiver), got %d", l.Name, s.Callee, len(fc.Params), len(args)-off)
	}
	for i, p := range fc.Params {
		cenv.vars[p] = args[off+i]
	}
	pre := map[string]*Term{}
	for k, v := range st.ghost {
		pre[k] = v
	}
	cenv.old = pre
	for _, ld := range fc.Lets {
		cenv.vars[ld.Name] = e.evalExpr(cenv, ld.E)
	}
	for _, rq := range fc.Requires {
		st.assume(e.evalBool(cenv, rq.E))
	}
	if fc.ModAll {
		for _, g := range e.W.GhostOrd {
			st.ghost[g] = e.freshGhost(g)
		}
	} else {
		for _, g := range fc.Modifies {
			st.ghost[g] = e.freshGhost(g)
		}
	}
	var resTuple *types.Tuple
	if fn != nil {
		resTuple = fn.Signature.Results()
	} else if fc.IsIface {
		resTuple = e.ifaceMethodResults(key)
	}
	var rs []Val
	if resTuple != nil {
		for i := 0; i < resTuple.Len(); i++ {
			rs = append(rs, e.freshVal(st, fmt.Sprintf("%s_%d_r%d", shortTarget(fc.Target), idx, i), resTuple.At(i).Type(), 1))
		}
	}
	for i, rn := range fc.Results {
		if i < len(rs) {
			cenv.vars[rn] = rs[i]
		}
	}
	if _, taken := cenv.vars["result"]; len(rs) == 1 && !taken {
		cenv.vars["result"] = rs[0]
	}
	for _, ld := range fc.PostLets {
		cenv.vars[ld.Name] = e.evalExpr(cenv, ld.E)
	}
	for _, en := range fc.Ensures {
		if usesCallLog(en.E) {
			continue
		}
		e.assumeClause(st, cenv, en.E, en.Src, fc.Target, fc.Props)
	}
	for i, rn := range s.Rets {
		if i < len(rs) {
			env.vars[rn] = rs[i]
		}
	}
	e.contractCalls[key] = true
}

func (e *Engine) ifaceMethodResults(key string) *types.Tuple {
	// key = iface:pkgpath.Iface.Method
	k := strings.TrimPrefix(key, "iface:")
	i := strings.LastIndex(k, ".")
	j := strings.LastIndex(k[:i], ".")
	pkgPath, in, mn := k[:j], k[j+1:i], k[i+1:]
	T, err := e.W.LookupType("", pkgPath+"."+in)
	if err != nil {
		return nil
	}
	it, ok := T.Underlying().(*types.Interface)
	if !ok {
		return nil
	}
	for m := 0; m < it.NumMethods(); m++ {
		if it.Method(m).Name() == mn {
			return it.Method(m).Type().(*types.Signature).Results()
		}
	}
	return nil
}

// ------------------------------------------------------------------------------------------
// discharge

func (e *Engine) query(o *Obligation) string {
	var b strings.Builder
	b.WriteString(e.C.Prelude())
	for _, h := range o.Hyps {
		b.WriteString("(assert " + h + ")\n")
	}
	if o.Cover {
		b.WriteString("(assert " + o.Goal + ")\n")
	} else {
		b.WriteString("(assert (not " + o.Goal + "))\n")
	}
	return b.String()
}

func (e *Engine) Prelude() string { return e.PreludeQ(true) }

func (e *Engine) PreludeQ(quant bool) string {
	p := e.C.PreludeQ(quant)
	{
		// datatypes must precede their use: insert after the Key datatype declaration line
		idx := strings.Index(p, "(declare-fun slen")
		p = p[:idx] + eventsPrelude + p[idx:]
	}
	return p
}

// Discharge solves all pending obligations in parallel.
func (e *Engine) Discharge(par int) {
	prelude := e.Prelude()
	preludeG := e.PreludeQ(false)
	var wg sync.WaitGroup
	sem := make(chan struct{}, par)
	for i, o := range e.obls {
		if o.Status != "" {
			continue
		}
		o.QueryNo = i
		wg.Add(1)
		go func(o *Obligation) {
			defer wg.Done()
			if o.Cover && o.Goal == "true" {
				// reachability covers: one satisfiable path per group is enough; the paths of a group are tried one
				// after the other (model finding under quantifiers is slow, the first paths usually suffice), and at
				// most coverTries of them
				cm := coverLock(o.Name)
				cm.Lock()
				defer cm.Unlock()
				if coverUndecided(o.Name) >= coverTries {
					o.Status = "skipped"
					return
				}
			}
			sem <- struct{}{}
			defer func() { <-sem }()
			if o.RawQuery != "" {
				// a self-contained query (string-theory lemmas): unsat = discharged
				r := Solve(e.TmpDir, fmt.Sprintf("raw%d_%s", o.QueryNo, o.Name), o.RawQuery, e.TimeoutS, e.Agree)
				o.Solver, o.Secs = r.Solver, r.Secs
				switch r.Status {
				case "unsat":
					o.Status = "discharged"
				case "sat":
					o.Status, o.Model = "failed", r.Model
				case "disagree":
					o.Status, o.Model = "failed", r.Model
				default:
					o.Status = "undischarged"
					o.Model = fmt.Sprintf("no solver decided within %ds: %v", e.TimeoutS, r.Raw)
				}
				return
			}
			if o.Cover && o.Goal == "true" {
				// reachability covers: one satisfiable path per group is enough
				e.mu.Lock()
				done := e.coverDone[o.Name]
				e.mu.Unlock()
				if done {
					o.Status = "skipped"
					return
				}
				defer func() {
					if o.Status == "discharged" {
						e.mu.Lock()
						e.coverDone[o.Name] = true
						e.mu.Unlock()
					} else if o.Status == "undischarged" {
						coverAttempt(o.Name) // only undecided attempts count against the budget: refuted paths are cheap
					}
				}()
			}
			var b strings.Builder
			for _, h := range o.Hyps {
				b.WriteString("(assert " + h + ")\n")
			}
			if o.Cover {
				b.WriteString("(assert " + o.Goal + ")\n")
			} else {
				b.WriteString("(assert (not " + o.Goal + "))\n")
			}
			if o.Goal == "true" && !o.Cover {
				o.Status, o.Solver = "discharged", "trivial"
				return
			}
			// stage 1: without the quantified library axioms (their ground instances are among the hypotheses):
			// unsat here is unsat with them too; a model found here is a candidate.
			qname := fmt.Sprintf("q%d_%s", o.QueryNo, o.Name)
			if o.Cover {
				qname = "cover_" + qname
			}
			tmo := e.TimeoutS
			if o.Cover && o.Goal == "true" && tmo > 6 {
				tmo = 6 // reachability witnesses: found fast or not at all
			}
			r := Solve(e.TmpDir, qname, preludeG+b.String(), tmo, e.Agree && !o.Cover)
			if o.Cover && r.Status == "sat" {
				// reachability witness; the library axioms (be64 injective, fixed lengths) are a conservative
				// extension of any model of the ground instances
				o.Solver, o.Secs, o.Status = r.Solver, r.Secs, "discharged"
				return
			}
			// A quantifier-free query that is sat without the library axioms is sat with them: the axioms only
			// constrain be64/unbe64/sha256 outside the ground terms of the query, and Str is an infinite
			// uninterpreted sort, so the model extends.
			qf := !strings.Contains(b.String(), "(forall ") && !strings.Contains(b.String(), "(exists ")
			if !(r.Status == "unsat" && !o.Cover) && !(r.Status == "sat" && qf) {
				r2 := Solve(e.TmpDir, fmt.Sprintf("q%d_%s_ax", o.QueryNo, o.Name), prelude+b.String(), tmo, e.Agree)
				r2.Secs += r.Secs
				switch {
				case r2.Status == "unsat" || r2.Status == "sat":
					r = r2
				case r.Status == "sat":
					r.Model = "; candidate model (found without the quantified library axioms; with them no solver answered)\n" + r.Model
					r.Secs = r2.Secs
				default:
					r = r2
				}
			}
			o.Solver, o.Secs = r.Solver, r.Secs
			switch {
			case o.Cover && r.Status == "sat":
				o.Status = "discharged"
			case o.Cover && r.Status == "unsat":
				o.Status = "failed"
				o.Model = "cover obligation is unreachable (unsat)"
			case !o.Cover && r.Status == "unsat":
				o.Status = "discharged"
			case !o.Cover && r.Status == "sat":
				o.Status = "failed"
				o.Model = r.Model
			case r.Status == "disagree":
				o.Status = "failed"
				o.Model = r.Model
			default:
				o.Status = "undischarged"
				o.Model = fmt.Sprintf("no solver decided within %ds: %v", e.TimeoutS, r.Raw)
			}
			if len(o.Tainted) > 0 && o.Status == "discharged" {
				// still fine: havoc only weakens what is known
			}
		}(o)
	}
	wg.Wait()
}

// Group aggregates per-path queries into named obligations.
type Group struct {
	Name     string
	Kind     string
	Desc     string
	Props    []string
	Queries  int
	Status   string
	Solvers  map[string]int
	Secs     float64
	MaxSecs  float64
	Failing  *Obligation
	Func     string
	Known    string
}

func (e *Engine) Groups() []*Group {
	m := map[string]*Group{}
	var order []string
	for _, o := range e.obls {
		g := m[o.Name]
		if g == nil {
			g = &Group{Name: o.Name, Kind: o.Kind, Desc: o.Desc, Props: o.Props, Status: "discharged", Solvers: map[string]int{}, Func: o.Func}
			m[o.Name] = g
			order = append(order, o.Name)
		}
		g.Queries++
		g.Secs += o.Secs
		if o.Secs > g.MaxSecs {
			g.MaxSecs = o.Secs
		}
		if o.Solver != "" {
			g.Solvers[o.Solver]++
		}
		if o.Cover {
			// a cover group is discharged if ANY path reaches it
			continue
		}
		switch o.Status {
		case "discharged":
		case "failed":
			if g.Status != "error" {
				g.Status = "failed"
				if g.Failing == nil || g.Failing.Status != "failed" {
					g.Failing = o
				}
			}
		case "error":
			g.Status = "error"
			g.Failing = o
		default:
			if g.Status == "discharged" {
				g.Status = "undischarged"
				g.Failing = o
			}
		}
	}
	// cover groups
	for _, name := range order {
		g := m[name]
		if g.Kind != "cover" {
			continue
		}
		any := false
		var last *Obligation
		undecided := false
		for _, o := range e.obls {
			if o.Name == name {
				last = o
				if o.Status == "discharged" {
					any = true
				}
				if o.Status == "undischarged" {
					undecided = true
				}
			}
		}
		switch {
		case any:
			g.Status = "discharged"
		case undecided:
			// no path was shown reachable, but none was refuted either (satisfiability of quantified hypotheses is
			// often undecided): not a vacuity failure; made visible in the evidence
			g.Status = "discharged"
			g.Solvers["cover-undecided"]++
		default:
			// every path is provably unreachable: the hypotheses are contradictory
			g.Status = "failed"
			g.Failing = last
		}
	}
	var out []*Group
	for _, n := range order {
		out = append(out, m[n])
	}
	sort.SliceStable(out, func(i, j int) bool { return out[i].Name < out[j].Name })
	return out
}

func fatalf(f string, a ...any) {
	fmt.Fprintf(os.Stderr, f+"\n", a...)
	os.Exit(2)
}

// quickSat: optional SMT feasibility pruning of a path condition (only z3-new, short timeout).
func (e *Engine) quickSat(st *State) bool {
	var b strings.Builder
	b.WriteString(e.Prelude())
	for _, h := range st.pc {
		b.WriteString("(assert " + h + ")\n")
	}
	r := Solve(e.TmpDir, "feas", b.String(), 2, false)
	return r.Status != "unsat"
}
