package main

import (
	"fmt"

	"golang.org/x/tools/go/ssa"
)

// ETH client (C18): the difficulty formula (EIP-100 + bomb, big-integer arithmetic in an anonymous function) is an
// uninterpreted function of the block time, the parent header and the bomb delay; big.Int.Sub is opaque.
func init() {
	ethT := repoModule + "/modules/tibc/light-clients/09-eth/types"
	reg(ethT+"::makeDifficultyCalculator$1", "calc_difficulty(time, pack(parent), bombDelayFromParent): the prescribed difficulty (EIP-100 formula with the ice-age bomb; big-integer arithmetic not modelled), non-nil",
		func(e *Engine, st *State, fr *Frame, a []Val, fn *ssa.Function, c *ssa.CallCommon) ([]Val, []*State) {
			e.C.DeclareFun("calc_difficulty", []Sort{BV(64), "Obj", "Obj"}, "Obj")
			e.C.DeclareFun("obj_nil", []Sort{"Obj"}, SBool)
			parent := e.packVal(st, a[1])
			bomb := opaqueOf(a[2])
			if bomb == nil {
				// the bound variable is held in a cell (captured by reference)
				if p, ok := a[2].(*PtrV); ok && p.C != nil {
					bomb = opaqueOf(e.load(st, p, nil))
				}
			}
			if bomb == nil {
				unsupported("difficulty calculator: bomb delay %s", valString(a[2]))
			}
			o := mk("Obj", fmt.Sprintf("(calc_difficulty %s %s %s)", a[0].(*Term).T, parent.T, bomb.T))
			st.assume("(not (obj_nil " + o.T + "))")
			return []Val{&PtrV{Opaque: o}}, nil
		})
}

// IterateConsensusStateAscending(store, cb): the prefix iterator is not modelled. Over-approximation: either the
// callback is not called at all, or it is called exactly once with the height of SOME stored consensus state of the
// client (the real code passes the lowest one; every use in reach stops after the first call: checked below).
func init() {
	ethT := repoModule + "/modules/tibc/light-clients/09-eth/types"
	reg(ethT+"::IterateConsensusStateAscending", "over-approximation: cb is not called, or called once with the height of some stored consensus state (the lowest in the real code); ASSUMED/checked: cb always returns true (stop)",
		func(e *Engine, st *State, fr *Frame, a []Val, fn *ssa.Function, c *ssa.CallCommon) ([]Val, []*State) {
			h, ok := a[0].(*StoreHandleV)
			if !ok || h.Prefix == nil {
				unsupported("IterateConsensusStateAscending over %s", valString(a[0]))
			}
			cl, ok := a[1].(*ClosureV)
			if !ok {
				unsupported("IterateConsensusStateAscending with callback %s", valString(a[1]))
			}
			// the callback must stop after its first call on every path
			for _, b := range cl.Fn.Blocks {
				for _, in := range b.Instrs {
					if r, isRet := in.(*ssa.Return); isRet {
						k, isConst := r.Results[0].(*ssa.Const)
						if !isConst || k.Value == nil || k.Value.String() != "true" {
							unsupported("IterateConsensusStateAscending: callback %s may continue the iteration (not modelled)", cl.Fn.Name())
						}
					}
				}
			}
			T, err := e.W.LookupType("", repoModule+"/modules/tibc/core/02-client/types.Height")
			if err != nil {
				unsupported("%v", err)
			}
			notCalled := st.clone()
			notCalled.path = append(notCalled.path, "iter-none")
			st.path = append(st.path, "iter-one")
			hv := e.freshVal(st, "iter_height", T, 0)
			sv := hv.(*StructV)
			g := st.ghost[h.Ghost]
			st.assume(fmt.Sprintf("((_ is some) (select %s (consState %s %s %s)))", g.T, h.Prefix.T, sv.F[0].(*Term).T, sv.F[1].(*Term).T))
			e.pushFrame(st, cl.Fn, []Val{&IfaceV{Dyn: T, V: hv}}, cl.Bind, nil)
			return nil, []*State{st, notCalled}
		})
}
