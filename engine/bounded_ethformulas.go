package main

// Bounded check eth.formulas: the EIP-1559 base-fee formula, the difficulty formula and the gas-limit rule of
// 09-eth/types against go-ethereum's own implementations (differential, bounded grid + seeded pseudo-random values).
// The C18 contracts take the first two as assumed functions of the parent; this check is what stands behind that
// assumption. Labelled bounded; never counted as proved.

import (
	"encoding/json"
	"fmt"
	"os"
	"os/exec"
	"path/filepath"
	"strings"
	"time"
)

func init() {
	boundedChecks["eth.formulas"] = func(tier string, seed int, overlay map[string][]byte) BoundedResult {
		t0 := time.Now()
		n := 2000
		if tier == "thorough" {
			n = 40000
		}
		res := BoundedResult{Name: "eth.formulas", Bound: fmt.Sprintf("differential against go-ethereum v1.10.17 (misc.CalcBaseFee, ethash.CalcDifficulty with London rules, misc.VerifyGaslimit): base fee over 8 gas limits x (7 boundary + 6 pseudo-random gas-used values) x 8 base fees; difficulty over 12 parent numbers (around the bomb delay) x 10 parent difficulties x uncles yes/no x (11 boundary + %d pseudo-random time deltas); gas limit over 8 parent limits x (10 boundary + 20 pseudo-random limits); seed %d", n/400+1, seed)}
		fail := func(key, detail string) BoundedResult {
			res.Violations = append(res.Violations, BoundedViolation{Key: key, Detail: detail})
			res.WallS = time.Since(t0).Seconds()
			return res
		}
		dir, err := os.MkdirTemp(filepath.Join(verifDir, ".tmp"), "ethform")
		if err != nil {
			return fail("harness", err.Error())
		}
		defer os.RemoveAll(dir)
		repo := repoDir()
		replace := map[string]string{}
		for p, data := range overlay {
			f := filepath.Join(dir, "ov_"+sanitize(p)+".go")
			os.WriteFile(f, data, 0o644)
			replace[p] = f
		}
		src, err := os.ReadFile(filepath.Join(verifDir, "bounded", "eth_formulas_test.go.txt"))
		if err != nil {
			return fail("harness", err.Error())
		}
		pkgRel := "modules/tibc/light-clients/09-eth/types"
		tp := filepath.Join(dir, "zz_formulas_test.go")
		os.WriteFile(tp, src, 0o644)
		replace[filepath.Join(repo, pkgRel, "zz_formulas_bounded_test.go")] = tp
		ov, _ := json.Marshal(map[string]any{"Replace": replace})
		ovp := filepath.Join(dir, "ov.json")
		os.WriteFile(ovp, ov, 0o644)
		cmd := exec.Command("go", "test", "-overlay", ovp, "-vet=off", "-count=1", "-v", "-timeout", "900s", "-run", "TestZZEthFormulas", "./"+pkgRel+"/")
		cmd.Dir = repo
		cmd.Env = append(os.Environ(), "GOFLAGS=-mod=mod", "GOPROXY=off", "GOSUMDB=off", "GOTOOLCHAIN=local", fmt.Sprintf("ZZ_N=%d", n), fmt.Sprintf("ZZ_SEED=%d", seed+1))
		out, runErr := cmd.CombinedOutput()
		text := string(out)
		seen := false
		for _, l := range strings.Split(text, "\n") {
			switch {
			case strings.HasPrefix(l, "FORMCASES "):
				fmt.Sscanf(l, "FORMCASES %d", &res.Cases)
				seen = true
			case strings.HasPrefix(l, "FORMVIOL "):
				rest := strings.TrimPrefix(l, "FORMVIOL ")
				key := strings.SplitN(rest, " ", 2)[0]
				res.Violations = append(res.Violations, BoundedViolation{Key: key, Detail: "bounded check eth.formulas: formula and first differing input (real code vs go-ethereum's implementation):\n  " + rest + "\n"})
			}
		}
		if !seen {
			tail := text
			if len(tail) > 3000 {
				tail = tail[len(tail)-3000:]
			}
			return fail("harness", fmt.Sprintf("the bounded test did not run to completion (%v):\n%s", runErr, tail))
		}
		res.WallS = time.Since(t0).Seconds()
		return res
	}
}
