package main

// Symbolic executor over go/ssa: path-by-path forward execution, loops cut at invariants,
// calls resolved to contracts / inlining / assumed extern specs / havoc.

import (
	"fmt"
	"go/constant"
	"go/token"
	"go/types"
	"sort"
	"strings"

	"golang.org/x/tools/go/ssa"
)

type Frame struct {
	fn      *ssa.Function
	regs    map[ssa.Value]Val
	names   map[string]Val
	block   *ssa.BasicBlock
	pred    *ssa.BasicBlock
	idx     int
	defers  []*deferred
	retTo   ssa.Value // call instruction value in the parent frame to bind the result to (nil: discard)
	loops   []*LoopInfo
	fc      *FuncContract
	loopIn  map[int]*loopSnap
	unroll  map[int]int
	results []Val // set at return while running defers
	inDefer bool
	skipEnter bool
	mapIters []*MapIter
	onRet   func(st *State, results []Val) // for frames pushed by the engine itself (deferred closures)
}

type loopSnap struct {
	variant *Term
	ghost   map[string]*Term // ghost state at the loop head (after havoc)
}

type deferred struct {
	fnv  Val
	args []Val
	call *ssa.CallCommon
}

type CallRec struct {
	Callee  string // canonical key or iface key
	Short   string
	Params  map[string]Val
	Results map[string]Val
	Args    []Val
	Rets    []Val
	Pre     map[string]*Term // ghost state before the call
	Post    map[string]*Term
}

type State struct {
	frames   []*Frame
	heap     map[int]Val
	pc       []string
	ghost    map[string]*Term
	ghostOld map[string]*Term
	log      []*CallRec
	notes    []string
	path     []string
	nextCell *int
	tainted  []string // calls that could not be modelled (everything havocked)
	panicked bool
	panicMsg string
	steps    int
}

func (s *State) clone() *State {
	n := &State{heap: make(map[int]Val, len(s.heap)), ghost: make(map[string]*Term, len(s.ghost)), ghostOld: s.ghostOld, nextCell: s.nextCell, steps: s.steps}
	for k, v := range s.heap {
		n.heap[k] = v
	}
	for k, v := range s.ghost {
		n.ghost[k] = v
	}
	n.pc = append([]string{}, s.pc...)
	n.log = append([]*CallRec{}, s.log...)
	n.notes = append([]string{}, s.notes...)
	n.path = append([]string{}, s.path...)
	n.tainted = append([]string{}, s.tainted...)
	for _, f := range s.frames {
		nf := *f
		nf.regs = make(map[ssa.Value]Val, len(f.regs))
		for k, v := range f.regs {
			nf.regs[k] = v
		}
		nf.names = make(map[string]Val, len(f.names))
		for k, v := range f.names {
			nf.names[k] = v
		}
		nf.defers = append([]*deferred{}, f.defers...)
		nf.loopIn = map[int]*loopSnap{}
		for k, v := range f.loopIn {
			nf.loopIn[k] = v
		}
		nf.unroll = map[int]int{}
		for k, v := range f.unroll {
			nf.unroll[k] = v
		}
		n.frames = append(n.frames, &nf)
	}
	return n
}

func (s *State) top() *Frame { return s.frames[len(s.frames)-1] }

func (s *State) assume(t string) {
	if t == "true" {
		return
	}
	// auxiliary facts about a term under a quantifier (length facts etc.) mention its bound variable and cannot be
	// stated outside: dropped (they only ever strengthen the hypotheses)
	if strings.Contains(t, "|q_") && !strings.Contains(t, "(forall ") && !strings.Contains(t, "(exists ") {
		return
	}
	s.pc = append(s.pc, t)
}

func (s *State) newCell(name string) *Cell {
	*s.nextCell++
	return &Cell{ID: *s.nextCell, Name: name}
}

type Outcome struct {
	St       *State
	Results  []Val
	Panicked bool
}

type Unsupported struct{ Msg string }

func (u *Unsupported) Error() string { return u.Msg }

func unsupported(f string, a ...any) {
	panic(&Unsupported{fmt.Sprintf(f, a...)})
}

const maxInlineDepth = 14
const maxSteps = 200000

// run executes st until its frame stack drops below stopDepth; every completed path is given to sink.
func (e *Engine) run(st0 *State, stopDepth int, sink func(o *Outcome)) {
	work := []*State{st0}
	paths := 0
	for len(work) > 0 {
		st := work[len(work)-1]
		work = work[:len(work)-1]
		for {
			if len(st.frames) < stopDepth {
				panic("frame underflow")
			}
			st.steps++
			if st.steps > maxSteps {
				unsupported("step limit exceeded in %s", st.top().fn.Name())
			}
			forks, done := e.stepGuard(st, stopDepth)
			if done != nil {
				paths++
				if paths > e.MaxPaths {
					unsupported("path limit (%d) exceeded", e.MaxPaths)
				}
				sink(done)
				break
			}
			if forks != nil {
				// continue with the first, push the others
				for i := len(forks) - 1; i >= 1; i-- {
					work = append(work, forks[i])
				}
				if len(forks) == 0 {
					break // path ended (loop back edge / infeasible)
				}
				st = forks[0]
			}
		}
	}
}

// NilDeref: a nil pointer dereference on the current path: Go panics there, the path ends as a panic outcome
// (mostly on branches that are semantically infeasible, e.g. `x, err := f(); if err != nil {return}; x.F`).
type NilDeref struct{ Msg string }

func (e *Engine) stepGuard(st *State, stopDepth int) (forks []*State, done *Outcome) {
	defer func() {
		if r := recover(); r != nil {
			if nd, ok := r.(*NilDeref); ok {
				st.panicked = true
				st.panicMsg = nd.Msg + " in " + st.top().fn.Name()
				forks, done = nil, &Outcome{St: st, Panicked: true}
				return
			}
			panic(r)
		}
	}()
	return e.step(st, stopDepth)
}

// step executes one instruction of the top frame. Returns (forks, nil) when the state forked or ended
// (forks may be empty), (nil, outcome) when the run is complete for this path, (nil, nil) to continue.
func (e *Engine) step(st *State, stopDepth int) ([]*State, *Outcome) {
	fr := st.top()
	if fr.idx == 0 && !fr.inDefer {
		// entering a block: loop handling
		if fr.skipEnter {
			fr.skipEnter = false
		} else if forks, handled := e.enterBlock(st, fr); handled {
			return forks, nil
		}
	}
	instr := fr.block.Instrs[fr.idx]
	fr.idx++
	switch in := instr.(type) {
	case *ssa.DebugRef:
		if id, ok := in.Expr.(interface{ String() string }); ok {
			_ = id
		}
		e.debugRef(st, fr, in)
	case *ssa.Alloc:
		c := st.newCell(in.Comment)
		st.heap[c.ID] = e.zeroVal(in.Type().(*types.Pointer).Elem())
		fr.regs[in] = &PtrV{C: c, T: in.Type()}
	case *ssa.Store:
		addr := e.eval(st, fr, in.Addr)
		v := e.eval(st, fr, in.Val)
		e.store(st, addr, v)
	case *ssa.UnOp:
		fr.regs[in] = e.unop(st, fr, in)
	case *ssa.BinOp:
		fr.regs[in] = e.binop(st, in.Op, e.eval(st, fr, in.X), e.eval(st, fr, in.Y), in.X.Type())
	case *ssa.FieldAddr:
		p := e.eval(st, fr, in.X)
		fr.regs[in] = e.fieldAddr(st, p, in.Field, in.Type())
	case *ssa.Field:
		x := e.eval(st, fr, in.X)
		sv, ok := x.(*StructV)
		if !ok {
			unsupported("Field on %s", valString(x))
		}
		fr.regs[in] = sv.F[in.Field]
	case *ssa.IndexAddr:
		fr.regs[in] = e.indexAddr(st, fr, in)
	case *ssa.Index:
		fr.regs[in] = e.index(st, fr, in)
	case *ssa.Slice:
		fr.regs[in] = e.slice(st, fr, in)
	case *ssa.Extract:
		t := e.eval(st, fr, in.Tuple)
		tv, ok := t.(TupleV)
		if !ok {
			unsupported("Extract from %s", valString(t))
		}
		fr.regs[in] = tv[in.Index]
	case *ssa.Phi:
		for i, p := range fr.block.Preds {
			if p == fr.pred {
				fr.regs[in] = e.eval(st, fr, in.Edges[i])
				if in.Comment != "" {
					fr.names[in.Comment] = fr.regs[in]
				}
				break
			}
		}
	case *ssa.MakeInterface:
		fr.regs[in] = e.makeInterface(st, in.X.Type(), e.eval(st, fr, in.X), in.Type())
	case *ssa.ChangeInterface:
		fr.regs[in] = e.eval(st, fr, in.X)
	case *ssa.ChangeType:
		fr.regs[in] = e.eval(st, fr, in.X)
	case *ssa.Convert:
		fr.regs[in] = e.convert(st, e.eval(st, fr, in.X), in.X.Type(), in.Type())
	case *ssa.TypeAssert:
		return e.typeAssert(st, fr, in)
	case *ssa.MakeClosure:
		var binds []Val
		for _, b := range in.Bindings {
			binds = append(binds, e.eval(st, fr, b))
		}
		fr.regs[in] = &ClosureV{Fn: in.Fn.(*ssa.Function), Bind: binds}
	case *ssa.MakeSlice:
		fr.regs[in] = e.makeSlice(st, fr, in)
	case *ssa.MakeMap:
		fr.regs[in] = e.newMap(st, in.Type().Underlying().(*types.Map), "map", true)
	case *ssa.MapUpdate:
		e.mapUpdate(st, fr, in)
	case *ssa.Lookup:
		fr.regs[in] = e.lookup(st, fr, in)
	case *ssa.Range:
		fr.regs[in] = e.rangeStart(st, fr, in)
	case *ssa.Next:
		return e.rangeNext(st, fr, in)
	case *ssa.Defer:
		d := &deferred{call: &in.Call}
		if in.Call.IsInvoke() {
			d.fnv = &NoiseV{"deferred invoke " + in.Call.Method.Name()}
			recv := e.eval(st, fr, in.Call.Value)
			d.args = append(d.args, recv)
		} else {
			d.fnv = e.eval(st, fr, in.Call.Value)
		}
		for _, a := range in.Call.Args {
			d.args = append(d.args, e.eval(st, fr, a))
		}
		fr.defers = append(fr.defers, d)
	case *ssa.RunDefers:
		return e.runDefers(st, fr)
	case *ssa.Call:
		return e.doCall(st, fr, in)
	case *ssa.Go, *ssa.Send, *ssa.Select:
		unsupported("concurrency instruction %T in %s (outside the subset)", in, fr.fn.Name())
	case *ssa.If:
		return e.doIf(st, fr, in)
	case *ssa.Jump:
		e.jump(fr, fr.block.Succs[0])
	case *ssa.Return:
		var rs []Val
		for _, r := range in.Results {
			rs = append(rs, e.eval(st, fr, r))
		}
		return e.doReturn(st, fr, rs, stopDepth)
	case *ssa.Panic:
		st.panicked = true
		st.panicMsg = fmt.Sprintf("panic in %s at %s", fr.fn.Name(), e.W.Prog.Fset.Position(in.Pos()))
		return nil, &Outcome{St: st, Panicked: true}
	default:
		unsupported("instruction %T (%s) in %s", instr, instr, fr.fn.Name())
	}
	return nil, nil
}

func (e *Engine) jump(fr *Frame, to *ssa.BasicBlock) {
	fr.pred = fr.block
	fr.block = to
	fr.idx = 0
}

func (e *Engine) debugRef(st *State, fr *Frame, in *ssa.DebugRef) {
	name := ""
	switch x := in.Expr.(type) {
	case interface{ String() string }:
		name = x.String()
	}
	if name == "" || strings.ContainsAny(name, " .()[]") {
		return
	}
	v, ok := fr.regs[in.X]
	if !ok {
		// constants / params / globals
		func() {
			defer func() { recover() }()
			v = e.eval(st, fr, in.X)
			ok = true
		}()
		if !ok {
			return
		}
	}
	if in.IsAddr {
		fr.names["&"+name] = v
	} else {
		fr.names[name] = v
	}
}

func (e *Engine) doIf(st *State, fr *Frame, in *ssa.If) ([]*State, *Outcome) {
	c := e.eval(st, fr, in.Cond)
	ct, ok := c.(*Term)
	if !ok {
		unsupported("if on non-term %s", valString(c))
	}
	tb, fb := fr.block.Succs[0], fr.block.Succs[1]
	switch ct.T {
	case "true":
		e.jump(fr, tb)
		return nil, nil
	case "false":
		e.jump(fr, fb)
		return nil, nil
	}
	s2 := st.clone()
	st.assume(ct.T)
	st.path = append(st.path, fmt.Sprintf("%d+", fr.block.Index))
	e.jump(fr, tb)
	f2 := s2.top()
	s2.assume(smtNot(ct.T))
	s2.path = append(s2.path, fmt.Sprintf("%d-", f2.block.Index))
	e.jump(f2, fb)
	out := []*State{}
	if e.feasible(st) {
		out = append(out, st)
	}
	if e.feasible(s2) {
		out = append(out, s2)
	}
	return out, nil
}

// feasible prunes only syntactically contradictory paths (cheap); semantic infeasibility is left to the solver.
func (e *Engine) feasible(st *State) bool {
	n := len(st.pc)
	if n == 0 {
		return true
	}
	last := st.pc[n-1]
	neg := smtNot(last)
	for _, p := range st.pc[:n-1] {
		if p == neg {
			return false
		}
	}
	if e.PruneSMT && len(st.path) >= e.PruneFrom {
		return e.quickSat(st)
	}
	return true
}

func smtNot(t string) string {
	if strings.HasPrefix(t, "(not ") && strings.HasSuffix(t, ")") {
		inner := t[5 : len(t)-1]
		if balanced(inner) {
			return inner
		}
	}
	if t == "true" {
		return "false"
	}
	if t == "false" {
		return "true"
	}
	return "(not " + t + ")"
}

func balanced(s string) bool {
	d := 0
	for i, c := range s {
		if c == '(' {
			d++
		} else if c == ')' {
			d--
			if d < 0 {
				return false
			}
			if d == 0 && i != len(s)-1 {
				return false
			}
		}
	}
	if d != 0 {
		return false
	}
	// atom or single parenthesised term
	if !strings.HasPrefix(s, "(") {
		return !strings.ContainsAny(s, " ")
	}
	return true
}

func smtAnd(ts ...string) string {
	var keep []string
	for _, t := range ts {
		if t == "true" {
			continue
		}
		if t == "false" {
			return "false"
		}
		keep = append(keep, t)
	}
	switch len(keep) {
	case 0:
		return "true"
	case 1:
		return keep[0]
	}
	return "(and " + strings.Join(keep, " ") + ")"
}

func smtOr(ts ...string) string {
	var keep []string
	for _, t := range ts {
		if t == "false" {
			continue
		}
		if t == "true" {
			return "true"
		}
		keep = append(keep, t)
	}
	switch len(keep) {
	case 0:
		return "false"
	case 1:
		return keep[0]
	}
	return "(or " + strings.Join(keep, " ") + ")"
}

func smtImp(a, b string) string {
	if a == "true" {
		return b
	}
	if a == "false" || b == "true" {
		return "true"
	}
	return "(=> " + a + " " + b + ")"
}

func smtEq(a, b string) string {
	if a == b {
		return "true"
	}
	return "(= " + a + " " + b + ")"
}

func smtIte(c, a, b string) string {
	if c == "true" {
		return a
	}
	if c == "false" {
		return b
	}
	if a == b {
		return a
	}
	return "(ite " + c + " " + a + " " + b + ")"
}

// ------------------------------------------------------------------------------------------
// returns, defers

func (e *Engine) doReturn(st *State, fr *Frame, rs []Val, stopDepth int) ([]*State, *Outcome) {
	depth := len(st.frames)
	st.frames = st.frames[:depth-1]
	if fr.onRet != nil {
		fr.onRet(st, rs)
		if len(st.frames) < stopDepth {
			return nil, &Outcome{St: st, Results: rs}
		}
		return nil, nil
	}
	if len(st.frames) < stopDepth {
		return nil, &Outcome{St: st, Results: rs}
	}
	parent := st.top()
	if fr.retTo != nil {
		switch len(rs) {
		case 0:
			parent.regs[fr.retTo] = TupleV{}
		case 1:
			parent.regs[fr.retTo] = rs[0]
		default:
			parent.regs[fr.retTo] = TupleV(rs)
		}
	}
	return nil, nil
}

func (e *Engine) runDefers(st *State, fr *Frame) ([]*State, *Outcome) {
	if len(fr.defers) == 0 {
		return nil, nil
	}
	d := fr.defers[len(fr.defers)-1]
	fr.defers = fr.defers[:len(fr.defers)-1]
	fr.idx-- // come back to RunDefers for the remaining ones
	fr.inDefer = true
	switch f := d.fnv.(type) {
	case *ClosureV:
		e.pushFrame(st, f.Fn, d.args, f.Bind, nil)
	case *FuncV:
		return e.callStatic(st, fr, f.Fn, d.args, nil, d.call)
	case *NoiseV:
		// deferred interface call (iterator.Close()): no modelled effect
	default:
		unsupported("deferred call of %s", valString(d.fnv))
	}
	return nil, nil
}

func (e *Engine) pushFrame(st *State, fn *ssa.Function, args []Val, binds []Val, retTo ssa.Value) *Frame {
	if fn.Blocks == nil {
		unsupported("function %s has no body", fn.String())
	}
	if len(st.frames) > maxInlineDepth {
		unsupported("inline depth exceeded at %s", fn.String())
	}
	nf := &Frame{fn: fn, regs: map[ssa.Value]Val{}, names: map[string]Val{}, block: fn.Blocks[0], retTo: retTo,
		loopIn: map[int]*loopSnap{}, unroll: map[int]int{}}
	for i, p := range fn.Params {
		if i < len(args) {
			nf.regs[p] = args[i]
			nf.names[p.Name()] = args[i]
		}
	}
	for i, fv := range fn.FreeVars {
		if i < len(binds) {
			nf.regs[fv] = binds[i]
			nf.names["&"+fv.Name()] = binds[i]
		}
	}
	nf.loops = FindLoops(fn)
	if fc := e.W.Contract[FuncKey(fn)]; fc != nil {
		nf.fc = fc
	}
	st.frames = append(st.frames, nf)
	return nf
}

// ------------------------------------------------------------------------------------------
// evaluation of operands

func (e *Engine) eval(st *State, fr *Frame, v ssa.Value) Val {
	switch x := v.(type) {
	case *ssa.Const:
		return e.constVal(x)
	case *ssa.Global:
		return e.globalAddr(st, x)
	case *ssa.Function:
		return &FuncV{Fn: x}
	case *ssa.Builtin:
		return &NoiseV{"builtin " + x.Name()}
	}
	if r, ok := fr.regs[v]; ok {
		return r
	}
	unsupported("no value for %s (%T) in %s", v.Name(), v, fr.fn.Name())
	return nil
}

func (e *Engine) constVal(c *ssa.Const) Val {
	t := c.Type()
	if c.Value == nil {
		return e.zeroVal(t)
	}
	switch u := t.Underlying().(type) {
	case *types.Basic:
		switch {
		case u.Info()&types.IsBoolean != 0:
			if constant.BoolVal(c.Value) {
				return tTrue
			}
			return tFalse
		case u.Info()&types.IsInteger != 0:
			w, sg := intInfo(u)
			var bits uint64
			if sg {
				i, _ := constant.Int64Val(constant.ToInt(c.Value))
				bits = uint64(i)
			} else {
				bits, _ = constant.Uint64Val(constant.ToInt(c.Value))
			}
			return mkBV(w, bvLit(bits, w), sg)
		case u.Info()&types.IsString != 0:
			return mk(SStr, e.C.StrLit(constant.StringVal(c.Value)))
		case u.Info()&types.IsFloat != 0:
			return mk("Obj", e.C.Fresh("float", "Obj"))
		}
	}
	unsupported("constant of type %s", t)
	return nil
}

func intInfo(b *types.Basic) (int, bool) {
	switch b.Kind() {
	case types.Int8:
		return 8, true
	case types.Int16:
		return 16, true
	case types.Int32, types.UntypedRune:
		return 32, true
	case types.Int64, types.Int, types.UntypedInt:
		return 64, true
	case types.Uint8:
		return 8, false
	case types.Uint16:
		return 16, false
	case types.Uint32:
		return 32, false
	case types.Uint64, types.Uint, types.Uintptr:
		return 64, false
	}
	return 64, true
}

func isByteSlice(t types.Type) bool {
	s, ok := t.Underlying().(*types.Slice)
	if !ok {
		return false
	}
	b, ok := s.Elem().Underlying().(*types.Basic)
	return ok && b.Kind() == types.Uint8
}

func isErrorType(t types.Type) bool {
	return types.Identical(t, types.Universe.Lookup("error").Type())
}

func typeInRepo(t types.Type) bool {
	switch x := t.(type) {
	case *types.Named:
		if x.Obj().Pkg() == nil {
			return false
		}
		return strings.HasPrefix(x.Obj().Pkg().Path(), repoModule)
	case *types.Alias:
		return typeInRepo(types.Unalias(x))
	}
	return false
}

// transparentStruct: structs we model field by field. In-repo types (including generated pb types) and
// anonymous structs; everything else is opaque.
func (e *Engine) transparentStruct(t types.Type) bool {
	if _, ok := t.Underlying().(*types.Struct); !ok {
		return false
	}
	if typeInRepo(t) {
		return true
	}
	if n, ok := types.Unalias(t).(*types.Named); ok {
		if n.Obj().Pkg() != nil {
			switch n.Obj().Pkg().Path() + "." + n.Obj().Name() {
			case "github.com/cosmos/cosmos-sdk/codec/types.Any":
				return false
			// plain data structs of cometbft that the Tendermint client builds and reads field by field
			case "github.com/cometbft/cometbft/proto/tendermint/types.SignedHeader",
				"github.com/cometbft/cometbft/proto/tendermint/types.Header",
				"github.com/cometbft/cometbft/types.SignedHeader",
				"github.com/cometbft/cometbft/types.Header",
				"github.com/cometbft/cometbft/libs/math.Fraction":
				return true
			}
		}
		return false
	}
	return true // anonymous struct
}

func (e *Engine) zeroVal(t types.Type) Val {
	if isErrorType(t) {
		return mk(SErr, "err_nil")
	}
	switch u := t.Underlying().(type) {
	case *types.Basic:
		switch {
		case u.Info()&types.IsBoolean != 0:
			return tFalse
		case u.Info()&types.IsInteger != 0:
			w, sg := intInfo(u)
			return mkBV(w, bvLit(0, w), sg)
		case u.Info()&types.IsString != 0:
			return mk(SStr, e.C.StrLit(""))
		case u.Kind() == types.UnsafePointer:
			return &PtrV{Nil: true}
		case u.Kind() == types.UntypedNil:
			return &PtrV{Nil: true}
		}
		return mk("Obj", e.C.Fresh("zero", "Obj"))
	case *types.Slice:
		if isByteSlice(t) {
			return mk(SBytes, "(mkB true str_empty)")
		}
		return &SliceV{Nil: true, ElemT: u.Elem()}
	case *types.Struct:
		if !e.transparentStruct(t) {
			o := mk("Obj", e.C.Fresh("zero_"+types.TypeString(t, shortQual), "Obj"))
			o.GoT = t
			return o
		}
		sv := &StructV{T: t}
		for i := 0; i < u.NumFields(); i++ {
			sv.F = append(sv.F, e.zeroVal(u.Field(i).Type()))
		}
		return sv
	case *types.Pointer:
		return &PtrV{Nil: true, T: t}
	case *types.Interface:
		return &IfaceV{}
	case *types.Array:
		av := &ArrayV{ElemT: u.Elem()}
		if u.Len() > 4096 {
			unsupported("array of length %d", u.Len())
		}
		for i := int64(0); i < u.Len(); i++ {
			av.E = append(av.E, e.zeroVal(u.Elem()))
		}
		return av
	case *types.Map:
		return &MapV{T: u, Id: nil}
	case *types.Signature:
		return &PtrV{Nil: true, T: t}
	case *types.Tuple:
		var tv TupleV
		for i := 0; i < u.Len(); i++ {
			tv = append(tv, e.zeroVal(u.At(i).Type()))
		}
		return tv
	case *types.Chan:
		return &PtrV{Nil: true, T: t}
	}
	unsupported("zero value of %s", t)
	return nil
}

func shortQual(p *types.Package) string { return p.Name() }

// freshVal creates an unconstrained symbolic value of Go type t.
func (e *Engine) freshVal(st *State, name string, t types.Type, depth int) Val {
	if isErrorType(t) {
		return mk(SErr, e.C.Fresh(name, SErr))
	}
	if special := e.freshSpecial(st, name, t); special != nil {
		return special
	}
	switch u := t.Underlying().(type) {
	case *types.Basic:
		switch {
		case u.Info()&types.IsBoolean != 0:
			return mkBool(e.C.Fresh(name, SBool))
		case u.Info()&types.IsInteger != 0:
			w, sg := intInfo(u)
			return mkBV(w, e.C.Fresh(name, BV(w)), sg)
		case u.Info()&types.IsString != 0:
			return mk(SStr, e.C.Fresh(name, SStr))
		}
		return mk("Obj", e.C.Fresh(name, "Obj"))
	case *types.Slice:
		if isByteSlice(t) {
			b := mk(SBytes, e.C.Fresh(name, SBytes))
			st.assume(fmt.Sprintf("(=> (bnil %s) (= (bstr %s) str_empty))", b.T, b.T))
			return b
		}
		o := mk("Obj", e.C.Fresh(name, "Obj"))
		o.GoT = t
		return o
	case *types.Struct:
		if !e.transparentStruct(t) {
			o := mk("Obj", e.C.Fresh(name, "Obj"))
			o.GoT = t
			return o
		}
		sv := &StructV{T: t}
		for i := 0; i < u.NumFields(); i++ {
			f := u.Field(i)
			if wv := e.wiredField(st, t, f, name); wv != nil {
				sv.F = append(sv.F, wv)
				continue
			}
			if depth > 6 {
				sv.F = append(sv.F, e.zeroVal(f.Type()))
				continue
			}
			sv.F = append(sv.F, e.freshVal(st, name+"."+f.Name(), f.Type(), depth+1))
		}
		return sv
	case *types.Pointer:
		el := u.Elem()
		if e.transparentStruct(el) {
			if depth > 4 {
				return &PtrV{Nil: true, T: t}
			}
			c := st.newCell(name)
			st.heap[c.ID] = e.freshVal(st, name, el, depth+1)
			return &PtrV{C: c, T: t}
		}
		o := mk("Obj", e.C.Fresh(name, "Obj"))
		o.GoT = t
		return &PtrV{Opaque: o, T: t}
	case *types.Interface:
		o := mk("Obj", e.C.Fresh(name, "Obj"))
		o.GoT = t
		return o
	case *types.Array:
		if isByteArrayType(t) && u.Len() >= 8 {
			// fixed-size byte arrays (addresses, hashes): one opaque byte string of that length
			a := &Term{S: "Arr", T: e.C.Fresh(name, SStr)}
			st.assume(fmt.Sprintf("(= (slen %s) %s)", a.T, bvLit(uint64(u.Len()), 64)))
			return a
		}
		av := &ArrayV{ElemT: u.Elem()}
		if u.Len() > 64 {
			o := mk("Obj", e.C.Fresh(name, "Obj"))
			o.GoT = t
			return o
		}
		for i := int64(0); i < u.Len(); i++ {
			av.E = append(av.E, e.freshVal(st, fmt.Sprintf("%s_%d", name, i), u.Elem(), depth+1))
		}
		return av
	case *types.Map:
		return e.newMap(st, u, name, false)
	case *types.Signature:
		o := mk("Obj", e.C.Fresh(name, "Obj"))
		o.GoT = t
		return o
	case *types.Tuple:
		var tv TupleV
		for i := 0; i < u.Len(); i++ {
			tv = append(tv, e.freshVal(st, fmt.Sprintf("%s_%d", name, i), u.At(i).Type(), depth+1))
		}
		return tv
	}
	unsupported("fresh value of %s", t)
	return nil
}

// wiredField applies a `wire` declaration to a struct field when a fresh struct is created.
func (e *Engine) wiredField(st *State, structT types.Type, f *types.Var, name string) Val {
	n, ok := types.Unalias(structT).(*types.Named)
	if !ok || n.Obj().Pkg() == nil {
		return nil
	}
	w := e.W.Wires[n.Obj().Pkg().Path()+"."+n.Obj().Name()+"."+f.Name()]
	if w == nil {
		return nil
	}
	if strings.HasPrefix(w.Target, "store ") {
		g := strings.TrimSpace(strings.TrimPrefix(w.Target, "store "))
		return &StoreKeyV{Ghost: g}
	}
	T, err := e.W.LookupType(w.Pkg, w.Target)
	if err != nil {
		unsupported("wire %s.%s: %v", w.Struct, w.Field, err)
	}
	e.usedWires[w.Pkg+"."+w.Struct+"."+w.Field+" = "+w.Target] = true
	inner := e.freshVal(st, name+"."+f.Name(), T, 1)
	if _, isIface := f.Type().Underlying().(*types.Interface); isIface {
		return &IfaceV{Dyn: T, V: inner}
	}
	return inner
}

// StoreKeyV is a storetypes.StoreKey wired to a ghost store.
type StoreKeyV struct{ Ghost string }

// ------------------------------------------------------------------------------------------
// memory

func (e *Engine) globalAddr(st *State, g *ssa.Global) Val {
	return &PtrV{Opaque: &Term{S: "Global", T: g.Pkg.Pkg.Path() + "." + g.Name(), GoT: g.Type()}, T: g.Type()}
}

func (e *Engine) load(st *State, addr Val, t types.Type) Val {
	p, ok := addr.(*PtrV)
	if !ok {
		unsupported("load through %s", valString(addr))
	}
	if p.Nil {
		panic(&NilDeref{"nil pointer dereference"})
	}
	if p.Opaque != nil {
		if p.Opaque.S == "Global" {
			return e.loadGlobal(st, p.Opaque.T, p.Opaque.GoT.(*types.Pointer).Elem())
		}
		if p.Opaque.S == "Elem" {
			if p.Opaque.Key != nil && p.Opaque.Key.S == "Obj" && p.Opaque.GoT != nil && e.transparentStruct(p.Opaque.GoT) {
				return e.structView(st, p.Opaque.Key, p.Opaque.GoT)
			}
			if p.Opaque.Key != nil && p.Opaque.Key.S == "Obj" && p.Opaque.GoT != nil {
				if pt, isPtr := p.Opaque.GoT.Underlying().(*types.Pointer); isPtr && e.transparentStruct(pt.Elem()) {
					// an element of a sequence of message pointers: a cell holding the view of the pointee (a nil element
					// would panic at its first use; not modelled)
					c := st.newCell("elemptr")
					st.heap[c.ID] = e.structView(st, p.Opaque.Key, pt.Elem())
					return &PtrV{C: c, T: p.Opaque.GoT}
				}
			}
			return p.Opaque.Key
		}
		// deref of opaque pointer: opaque content
		o := mk("Obj", fmt.Sprintf("(deref %s)", p.Opaque.T))
		e.C.DeclareFun("deref", []Sort{"Obj"}, "Obj")
		o.GoT = t
		return o
	}
	v := st.heap[p.C.ID]
	for _, i := range p.Path {
		switch x := v.(type) {
		case *StructV:
			v = x.F[i]
		case *ArrayV:
			v = x.E[i]
		case *Term:
			// a field of an opaque (external) struct value: opaque as well
			if x.S == "Obj" {
				e.C.DeclareFun("obj_field", []Sort{"Obj", SInt}, "Obj")
				v = &Term{S: "Obj", T: fmt.Sprintf("(obj_field %s %d)", x.T, i)}
				continue
			}
			unsupported("path into %s", valString(v))
		default:
			unsupported("path into %s", valString(v))
		}
	}
	return v
}

func (e *Engine) store(st *State, addr Val, v Val) {
	p, ok := addr.(*PtrV)
	if !ok {
		unsupported("store through %s", valString(addr))
	}
	if p.Nil {
		panic(&NilDeref{"store through nil pointer"})
	}
	if p.Opaque != nil {
		if p.Opaque.S == "Global" {
			st.notes = append(st.notes, "store to global "+p.Opaque.T+" ignored")
			return
		}
		st.notes = append(st.notes, "store through opaque pointer ignored")
		return
	}
	st.heap[p.C.ID] = updatePath(st.heap[p.C.ID], p.Path, v)
}

func updatePath(root Val, path []int, v Val) Val {
	if len(path) == 0 {
		return v
	}
	switch x := root.(type) {
	case *StructV:
		n := &StructV{T: x.T, F: append([]Val{}, x.F...)}
		n.F[path[0]] = updatePath(x.F[path[0]], path[1:], v)
		return n
	case *ArrayV:
		n := &ArrayV{ElemT: x.ElemT, E: append([]Val{}, x.E...)}
		n.E[path[0]] = updatePath(x.E[path[0]], path[1:], v)
		return n
	case *Term:
		// writing a field of an opaque (external) struct value held in a local cell (e.g. &sdk.Result{Events: ...}):
		// the value stays opaque; nothing observable in the model depends on it
		if x.S == "Obj" {
			return x
		}
	}
	unsupported("update path into %s", valString(root))
	return nil
}

func (e *Engine) fieldAddr(st *State, p Val, field int, t types.Type) Val {
	pv, ok := p.(*PtrV)
	if !ok {
		unsupported("FieldAddr on %s", valString(p))
	}
	if pv.Nil {
		panic(&NilDeref{"field of nil pointer"})
	}
	if pv.Opaque != nil {
		if pv.Opaque.S == "Elem" && pv.Opaque.Key != nil && pv.Opaque.Key.S == "Obj" && pv.Opaque.GoT != nil && e.transparentStruct(pv.Opaque.GoT) {
			// a field of an element of an opaque sequence of message structs: a view of the element
			sv := e.structView(st, pv.Opaque.Key, pv.Opaque.GoT)
			c := st.newCell("elemview")
			st.heap[c.ID] = sv
			return &PtrV{C: c, Path: []int{field}, T: t}
		}
		unsupported("field %d of opaque pointer %s", field, pv.Opaque.T)
	}
	return &PtrV{C: pv.C, Path: append(append([]int{}, pv.Path...), field), T: t}
}

func (e *Engine) concreteInt(v Val) (int, bool) {
	t, ok := v.(*Term)
	if !ok {
		return 0, false
	}
	if strings.HasPrefix(t.T, "#x") {
		var x uint64
		if _, err := fmt.Sscanf(t.T[2:], "%x", &x); err == nil {
			return int(int64(x)), true
		}
	}
	return 0, false
}

func (e *Engine) indexAddr(st *State, fr *Frame, in *ssa.IndexAddr) Val {
	x := e.eval(st, fr, in.X)
	idx := e.eval(st, fr, in.Index)
	ci, conc := e.concreteInt(idx)
	switch b := x.(type) {
	case *PtrV: // pointer to array
		if !conc {
			unsupported("symbolic index into array in %s", fr.fn.Name())
		}
		return &PtrV{C: b.C, Path: append(append([]int{}, b.Path...), ci), T: in.Type()}
	case *SliceV:
		if !conc {
			unsupported("symbolic index into concrete slice in %s", fr.fn.Name())
		}
		if b.Nil || ci < 0 || b.Lo+ci >= b.Hi {
			unsupported("index %d out of range of concrete slice (panic path)", ci)
		}
		return &PtrV{C: b.Base.C, Path: append(append([]int{}, b.Base.Path...), b.Lo+ci), T: in.Type()}
	case *Term:
		// element of an opaque sequence: a read-only pseudo pointer
		return &PtrV{Opaque: e.seqElem(st, b, idx.(*Term), in.Type().(*types.Pointer).Elem()), T: in.Type()}
	}
	unsupported("IndexAddr on %s", valString(x))
	return nil
}

// seqElem returns the term for element idx of an opaque sequence value.
func (e *Engine) seqElem(st *State, seq *Term, idx *Term, elemT types.Type) *Term {
	var t *Term
	switch {
	case isBasicString(elemT):
		e.C.DeclareFun("seq_str", []Sort{"Obj", BV(64)}, SStr)
		t = mk(SStr, fmt.Sprintf("(seq_str %s %s)", seq.T, idx.T))
	case isByteSlice(elemT):
		e.C.DeclareFun("seq_bytes", []Sort{"Obj", BV(64)}, SBytes)
		t = mk(SBytes, fmt.Sprintf("(seq_bytes %s %s)", seq.T, idx.T))
	case isByteArrayType(elemT):
		// fixed-size byte arrays (hashes, addresses) are strings of that length
		e.C.DeclareFun("seq_str", []Sort{"Obj", BV(64)}, SStr)
		t = &Term{S: "Arr", T: fmt.Sprintf("(seq_str %s %s)", seq.T, idx.T)}
	default:
		e.C.DeclareFun("seq_obj", []Sort{"Obj", BV(64)}, "Obj")
		t = mk("Obj", fmt.Sprintf("(seq_obj %s %s)", seq.T, idx.T))
	}
	t.GoT = elemT
	return &Term{S: "Elem", T: t.T, GoT: elemT, Key: t}
}

func isBasicString(t types.Type) bool {
	b, ok := t.Underlying().(*types.Basic)
	return ok && b.Info()&types.IsString != 0
}

func (e *Engine) index(st *State, fr *Frame, in *ssa.Index) Val {
	x := e.eval(st, fr, in.X)
	idx := e.eval(st, fr, in.Index)
	ci, conc := e.concreteInt(idx)
	switch b := x.(type) {
	case *ArrayV:
		if !conc {
			unsupported("symbolic index into array value")
		}
		return b.E[ci]
	case *Term:
		if b.S == SStr {
			e.C.DeclareFun("str_at", []Sort{SStr, BV(64)}, BV(8))
			return mkBV(8, fmt.Sprintf("(str_at %s %s)", b.T, idx.(*Term).T), false)
		}
	}
	unsupported("Index on %s", valString(x))
	return nil
}

func (e *Engine) slice(st *State, fr *Frame, in *ssa.Slice) Val {
	x := e.eval(st, fr, in.X)
	var lo, hi Val
	if in.Low != nil {
		lo = e.eval(st, fr, in.Low)
	}
	if in.High != nil {
		hi = e.eval(st, fr, in.High)
	}
	switch b := x.(type) {
	case *PtrV: // pointer to array
		if b.Opaque != nil {
			unsupported("slice of opaque array pointer")
		}
		arr := e.load(st, b, nil)
		switch a := arr.(type) {
		case *ArrayV:
			l, h := 0, len(a.E)
			if lo != nil {
				c, ok := e.concreteInt(lo)
				if !ok {
					unsupported("symbolic slice bound")
				}
				l = c
			}
			if hi != nil {
				c, ok := e.concreteInt(hi)
				if !ok {
					unsupported("symbolic slice bound")
				}
				h = c
			}
			return &SliceV{Base: b, Lo: l, Hi: h, ElemT: a.ElemT}
		case *Term:
			// an opaque fixed-size byte array (e.g. sha256.Sum256 result): slicing [:] gives its bytes
			if a.S == "Arr" && lo == nil && hi == nil {
				return mk(SBytes, fmt.Sprintf("(mkB false %s)", a.T))
			}
		}
		unsupported("slice of %s", valString(arr))
	case *SliceV:
		l, h := b.Lo, b.Hi
		if lo != nil {
			c, ok := e.concreteInt(lo)
			if !ok {
				unsupported("symbolic slice bound")
			}
			l = b.Lo + c
		}
		if hi != nil {
			c, ok := e.concreteInt(hi)
			if !ok {
				unsupported("symbolic slice bound")
			}
			h = b.Lo + c
		}
		return &SliceV{Base: b.Base, Lo: l, Hi: h, ElemT: b.ElemT, Nil: b.Nil}
	case *Term:
		if (b.S == SBytes || b.S == SStr) && lo == nil && hi == nil {
			return b
		}
		if b.S == SBytes || b.S == SStr {
			return e.substr(st, b, lo, hi)
		}
	}
	unsupported("Slice on %s in %s", valString(x), fr.fn.Name())
	return nil
}

// substr models s[lo:hi] on abstract strings with an uninterpreted function carrying the length fact.
func (e *Engine) substr(st *State, b *Term, lo, hi Val) Val {
	e.C.DeclareFun("substr", []Sort{SStr, BV(64), BV(64)}, SStr)
	s := b.T
	if b.S == SBytes {
		s = "(bstr " + b.T + ")"
	}
	l := "#x0000000000000000"
	if lo != nil {
		l = lo.(*Term).T
	}
	h := "(slen " + s + ")"
	if hi != nil {
		h = hi.(*Term).T
	}
	// out-of-range slicing panics: the surviving path has lo <= hi <= len
	st.assume(fmt.Sprintf("(and (bvule %s %s) (bvule %s (slen %s)))", l, h, h, s))
	r := fmt.Sprintf("(substr %s %s %s)", s, l, h)
	st.assume(fmt.Sprintf("(= (slen %s) (bvsub %s %s))", r, h, l))
	if b.S == SBytes {
		return mk(SBytes, "(mkB false "+r+")")
	}
	return mk(SStr, r)
}

func (e *Engine) makeSlice(st *State, fr *Frame, in *ssa.MakeSlice) Val {
	n, ok := e.concreteInt(e.eval(st, fr, in.Len))
	elem := in.Type().Underlying().(*types.Slice).Elem()
	if !ok || n > 1024 {
		if isByteSlice(in.Type()) {
			b := mk(SBytes, e.C.Fresh("mkslice", SBytes))
			st.assume("(not (bnil " + b.T + "))")
			st.assume(fmt.Sprintf("(= (slen (bstr %s)) %s)", b.T, e.eval(st, fr, in.Len).(*Term).T))
			return b
		}
		o := mk("Obj", e.C.Fresh("mkslice", "Obj"))
		o.GoT = in.Type()
		return o
	}
	c := st.newCell("makeslice")
	av := &ArrayV{ElemT: elem}
	for i := 0; i < n; i++ {
		av.E = append(av.E, e.zeroVal(elem))
	}
	st.heap[c.ID] = av
	return &SliceV{Base: &PtrV{C: c}, Lo: 0, Hi: n, ElemT: elem}
}

// ------------------------------------------------------------------------------------------
// operators

func (e *Engine) unop(st *State, fr *Frame, in *ssa.UnOp) Val {
	x := e.eval(st, fr, in.X)
	switch in.Op {
	case token.MUL:
		return e.load(st, x, in.Type())
	case token.NOT:
		return mkBool(smtNot(x.(*Term).T))
	case token.SUB:
		t := x.(*Term)
		return &Term{S: t.S, T: "(bvneg " + t.T + ")", Signed: t.Signed}
	case token.XOR:
		t := x.(*Term)
		return &Term{S: t.S, T: "(bvnot " + t.T + ")", Signed: t.Signed}
	}
	unsupported("unary %s", in.Op)
	return nil
}

func (e *Engine) isNilTerm(st *State, v Val) string {
	switch x := v.(type) {
	case *PtrV:
		if x.Nil {
			return "true"
		}
		if x.Opaque != nil && x.Opaque.S == "Obj" {
			e.C.DeclareFun("obj_nil", []Sort{"Obj"}, SBool)
			return "(obj_nil " + x.Opaque.T + ")"
		}
		return "false"
	case *IfaceV:
		if x.Dyn == nil {
			return "true"
		}
		return "false"
	case *SliceV:
		if x.Nil {
			return "true"
		}
		return "false"
	case *Term:
		switch x.S {
		case SBytes:
			return "(bnil " + x.T + ")"
		case SErr:
			return smtEq(x.T, "err_nil")
		case "Obj":
			e.C.DeclareFun("obj_nil", []Sort{"Obj"}, SBool)
			return "(obj_nil " + x.T + ")"
		}
	case *MapV:
		if x.Id == nil {
			return "true"
		}
		return "false"
	case *ClosureV, *FuncV:
		return "false"
	}
	unsupported("nil test on %s", valString(v))
	return ""
}

func isNilConst(v Val) bool {
	switch x := v.(type) {
	case *PtrV:
		return x.Nil
	case *IfaceV:
		return x.Dyn == nil
	case *SliceV:
		return x.Nil && x.Base == nil
	case *Term:
		return x.T == "err_nil" || x.T == "(mkB true str_empty)"
	case *MapV:
		return x.Id == nil
	}
	return false
}

// valEq builds the SMT term for Go's == on two values.
func (e *Engine) valEq(st *State, a, b Val) string {
	if isNilConst(b) {
		return e.isNilTerm(st, a)
	}
	if isNilConst(a) {
		return e.isNilTerm(st, b)
	}
	if t, ok := e.arrayEq(st, a, b); ok {
		return t
	}
	switch x := a.(type) {
	case *Term:
		switch y := b.(type) {
		case *Term:
			if x.S != y.S {
				// Err vs interface-wrapped etc.
				unsupported("comparison of %s and %s", x.S, y.S)
			}
			return smtEq(x.T, y.T)
		case *IfaceV:
			return e.valEq(st, b, a)
		}
	case *StructV:
		if y, ok := b.(*IfaceV); ok && y.Dyn != nil {
			return e.valEq(st, a, y.V)
		}
		if y, ok := b.(*StructV); ok {
			var parts []string
			for i := range x.F {
				parts = append(parts, e.valEq(st, x.F[i], y.F[i]))
			}
			return smtAnd(parts...)
		}
	case *IfaceV:
		switch y := b.(type) {
		case *PtrV:
			if x.Dyn != nil {
				if _, isPtr := x.V.(*PtrV); isPtr {
					return e.valEq(st, x.V, y)
				}
			}
		case *StructV:
			if x.Dyn != nil {
				return e.valEq(st, x.V, y)
			}
		case *IfaceV:
			if x.Dyn == nil || y.Dyn == nil {
				if x.Dyn == nil && y.Dyn == nil {
					return "true"
				}
				return "false"
			}
			if !types.Identical(x.Dyn, y.Dyn) {
				return "false"
			}
			return e.valEq(st, x.V, y.V)
		case *Term:
			if y.S == "Obj" {
				// opaque interface vs known: unknown
				return e.C.Fresh("ifaceeq", SBool)
			}
		}
	case *PtrV:
		if y, ok := b.(*PtrV); ok {
			if x.Opaque != nil && y.Opaque != nil {
				if x.Opaque.S == "Obj" && y.Opaque.S == "Obj" {
					return smtEq(x.Opaque.T, y.Opaque.T)
				}
				if x.Opaque.T == y.Opaque.T {
					return "true"
				}
				return "false"
			}
			if x.C != nil && y.C != nil {
				if x.C == y.C && fmt.Sprint(x.Path) == fmt.Sprint(y.Path) {
					return "true"
				}
				return "false"
			}
			return "false"
		}
	}
	unsupported("equality of %s and %s", valString(a), valString(b))
	return ""
}

func (e *Engine) binop(st *State, op token.Token, a, b Val, xt types.Type) Val {
	if op == token.EQL {
		return mkBool(e.valEq(st, a, b))
	}
	if op == token.NEQ {
		return mkBool(smtNot(e.valEq(st, a, b)))
	}
	x, ok1 := a.(*Term)
	y, ok2 := b.(*Term)
	if !ok1 || !ok2 {
		unsupported("binop %s on %s, %s", op, valString(a), valString(b))
	}
	if x.S == SBool {
		switch op {
		case token.LAND, token.AND:
			return mkBool(smtAnd(x.T, y.T))
		case token.LOR, token.OR:
			return mkBool(smtOr(x.T, y.T))
		}
	}
	if x.S == SStr {
		switch op {
		case token.ADD:
			return e.strCat(st, x, y)
		case token.LSS, token.GTR, token.LEQ, token.GEQ:
			e.C.DeclareFun("str_lt", []Sort{SStr, SStr}, SBool)
			switch op {
			case token.LSS:
				return mkBool(fmt.Sprintf("(str_lt %s %s)", x.T, y.T))
			case token.GTR:
				return mkBool(fmt.Sprintf("(str_lt %s %s)", y.T, x.T))
			case token.LEQ:
				return mkBool(fmt.Sprintf("(not (str_lt %s %s))", y.T, x.T))
			case token.GEQ:
				return mkBool(fmt.Sprintf("(not (str_lt %s %s))", x.T, y.T))
			}
		}
	}
	if w := x.S.BVWidth(); w > 0 {
		sg := x.Signed
		if xt != nil {
			if bt, ok := xt.Underlying().(*types.Basic); ok && bt.Info()&types.IsInteger != 0 {
				_, sg = intInfo(bt)
			}
		}
		bin := func(f string) Val { return &Term{S: x.S, T: fmt.Sprintf("(%s %s %s)", f, x.T, y.T), Signed: sg} }
		cmp := func(u, s string) Val {
			if sg {
				return mkBool(fmt.Sprintf("(%s %s %s)", s, x.T, y.T))
			}
			return mkBool(fmt.Sprintf("(%s %s %s)", u, x.T, y.T))
		}
		switch op {
		case token.ADD:
			return bin("bvadd")
		case token.SUB:
			return bin("bvsub")
		case token.MUL:
			return bin("bvmul")
		case token.QUO:
			// Go panics on division by zero: surviving path has y != 0
			st.assume(fmt.Sprintf("(not (= %s %s))", y.T, bvLit(0, w)))
			if sg {
				return e.arithAbs(st, bin("bvsdiv"))
			}
			return e.arithAbs(st, bin("bvudiv"))
		case token.REM:
			st.assume(fmt.Sprintf("(not (= %s %s))", y.T, bvLit(0, w)))
			if sg {
				return e.arithAbs(st, bin("bvsrem"))
			}
			return e.arithAbs(st, bin("bvurem"))
		case token.AND:
			return bin("bvand")
		case token.OR:
			return bin("bvor")
		case token.XOR:
			return bin("bvxor")
		case token.AND_NOT:
			return &Term{S: x.S, T: fmt.Sprintf("(bvand %s (bvnot %s))", x.T, y.T), Signed: sg}
		case token.SHL, token.SHR:
			yy := y.T
			if yw := y.S.BVWidth(); yw != w {
				if yw < w {
					yy = fmt.Sprintf("((_ zero_extend %d) %s)", w-yw, y.T)
				} else {
					yy = fmt.Sprintf("((_ extract %d 0) %s)", w-1, y.T)
				}
			}
			f := "bvshl"
			if op == token.SHR {
				f = "bvlshr"
				if sg {
					f = "bvashr"
				}
			}
			return &Term{S: x.S, T: fmt.Sprintf("(%s %s %s)", f, x.T, yy), Signed: sg}
		case token.LSS:
			return cmp("bvult", "bvslt")
		case token.LEQ:
			return cmp("bvule", "bvsle")
		case token.GTR:
			return cmp("bvugt", "bvsgt")
		case token.GEQ:
			return cmp("bvuge", "bvsge")
		}
	}
	unsupported("binop %s on sorts %s, %s", op, x.S, y.S)
	return nil
}

func (e *Engine) strCat(st *State, x, y *Term) *Term {
	if x.T == "str_empty" {
		return y
	}
	if y.T == "str_empty" {
		return x
	}
	r := mk(SStr, fmt.Sprintf("(cat %s %s)", x.T, y.T))
	st.assume(fmt.Sprintf("(= (slen %s) (bvadd (slen %s) (slen %s)))", r.T, x.T, y.T))
	return r
}

func (e *Engine) strLen(st *State, s string) *Term {
	l := mkBV(64, "(slen "+s+")", true)
	st.assume(fmt.Sprintf("(bvsge %s #x0000000000000000)", l.T))
	st.assume(fmt.Sprintf("(= (= %s #x0000000000000000) (= %s str_empty))", l.T, s))
	return l
}

func (e *Engine) convert(st *State, v Val, from, to types.Type) Val {
	fu, tu := from.Underlying(), to.Underlying()
	if fb, ok := fu.(*types.Basic); ok {
		if tb, ok := tu.(*types.Basic); ok {
			if fb.Info()&types.IsInteger != 0 && tb.Info()&types.IsInteger != 0 {
				fw, fs := intInfo(fb)
				tw, ts := intInfo(tb)
				t := v.(*Term)
				switch {
				case fw == tw:
					return &Term{S: t.S, T: t.T, Signed: ts}
				case fw < tw:
					ext := "zero_extend"
					if fs {
						ext = "sign_extend"
					}
					return mkBV(tw, fmt.Sprintf("((_ %s %d) %s)", ext, tw-fw, t.T), ts)
				default:
					return mkBV(tw, fmt.Sprintf("((_ extract %d 0) %s)", tw-1, t.T), ts)
				}
			}
			if fb.Info()&types.IsString != 0 && tb.Info()&types.IsString != 0 {
				return v
			}
			if fb.Info()&types.IsInteger != 0 && tb.Info()&types.IsString != 0 {
				e.C.DeclareFun("rune_str", []Sort{BV(64)}, SStr)
				return mk(SStr, e.C.Fresh("runestr", SStr))
			}
		}
		if fb.Info()&types.IsString != 0 && isByteSlice(to) {
			t := v.(*Term)
			r := mk(SBytes, "(mkB false "+t.T+")")
			r.Key = t.Key
			r.Sub = t.Sub
			return r
		}
	}
	if isByteSlice(from) {
		if tb, ok := tu.(*types.Basic); ok && tb.Info()&types.IsString != 0 {
			t := e.toBytesTerm(st, v)
			r := mk(SStr, bstrOf(t.T))
			r.Key = t.Key
			r.Sub = t.Sub
			return r
		}
	}
	// slice -> slice / pointer conversions of identical layout
	if _, ok := fu.(*types.Slice); ok {
		if _, ok := tu.(*types.Slice); ok {
			return v
		}
	}
	if _, ok := fu.(*types.Pointer); ok {
		return v
	}
	unsupported("conversion %s -> %s", from, to)
	return nil
}

func bstrOf(b string) string {
	if strings.HasPrefix(b, "(mkB false ") && strings.HasSuffix(b, ")") {
		inner := b[len("(mkB false ") : len(b)-1]
		if balanced(inner) {
			return inner
		}
	}
	if b == "(mkB true str_empty)" {
		return "str_empty"
	}
	if strings.HasPrefix(b, "(mkB ") && strings.HasSuffix(b, ")") {
		// (mkB <nil?> <content>): the content is the last argument
		if args := splitSexprs(b[len("(mkB ") : len(b)-1]); len(args) == 2 {
			return args[1]
		}
	}
	return "(bstr " + b + ")"
}

// toBytesTerm turns a []byte value (Bytes term or concrete slice of concrete bytes) into a Bytes term.
func (e *Engine) toBytesTerm(st *State, v Val) *Term {
	switch x := v.(type) {
	case *Term:
		if x.S == SBytes {
			return x
		}
		if x.S == "Obj" {
			// opaque value used as bytes
			e.C.DeclareFun("obj_bytes", []Sort{"Obj"}, SBytes)
			return mk(SBytes, "(obj_bytes "+x.T+")")
		}
	case *SliceV:
		if x.Nil {
			return mk(SBytes, "(mkB true str_empty)")
		}
		arr := e.load(st, x.Base, nil).(*ArrayV)
		var sb strings.Builder
		allConst := true
		for i := x.Lo; i < x.Hi; i++ {
			c, ok := e.concreteInt(arr.E[i])
			if !ok {
				allConst = false
				break
			}
			sb.WriteByte(byte(c))
		}
		if allConst {
			return mk(SBytes, "(mkB false "+e.C.StrLit(sb.String())+")")
		}
		// symbolic bytes: opaque string of the right length built from its elements
		r := mk(SBytes, e.C.Fresh("bytes", SBytes))
		st.assume("(not (bnil " + r.T + "))")
		st.assume(fmt.Sprintf("(= (slen (bstr %s)) %s)", r.T, bvLit(uint64(x.Hi-x.Lo), 64)))
		return r
	}
	unsupported("bytes of %s", valString(v))
	return nil
}

func (e *Engine) makeInterface(st *State, from types.Type, v Val, to types.Type) Val {
	if isErrorType(to) {
		switch x := v.(type) {
		case *PtrV:
			if x.Opaque != nil && x.Opaque.S == "ErrSentinel" {
				return mk(SErr, x.Opaque.T)
			}
			if x.Nil {
				// typed nil pointer in an error interface is non-nil; treat as opaque error
				r := mk(SErr, e.C.Fresh("typednil_err", SErr))
				st.assume("(not (= " + r.T + " err_nil))")
				return r
			}
		case *Term:
			if x.S == SErr {
				return x
			}
		}
		// some concrete error type: an opaque non-nil error
		r := mk(SErr, e.C.Fresh("err_"+types.TypeString(from, shortQual), SErr))
		st.assume("(not (= " + r.T + " err_nil))")
		st.assume("(not (is_sentinel " + r.T + "))")
		return r
	}
	return &IfaceV{Dyn: from, V: v}
}

func (e *Engine) typeAssert(st *State, fr *Frame, in *ssa.TypeAssert) ([]*State, *Outcome) {
	x := e.eval(st, fr, in.X)
	switch iv := x.(type) {
	case *IfaceV:
		ok := false
		var res Val
		if iv.Dyn != nil {
			if _, isIface := in.AssertedType.Underlying().(*types.Interface); isIface {
				ok = types.Implements(iv.Dyn, in.AssertedType.Underlying().(*types.Interface))
				res = iv
			} else {
				ok = types.Identical(iv.Dyn, in.AssertedType)
				res = iv.V
			}
		}
		if in.CommaOk {
			if !ok {
				res = e.zeroVal(in.AssertedType)
			}
			b := tFalse
			if ok {
				b = tTrue
			}
			fr.regs[in] = TupleV{res, b}
			return nil, nil
		}
		if !ok {
			st.panicked = true
			st.panicMsg = "type assertion failed in " + fr.fn.Name()
			return nil, &Outcome{St: st, Panicked: true}
		}
		fr.regs[in] = res
		return nil, nil
	case *Term:
		if iv.S == "Obj" {
			if res, okT, done := e.assertView(st, iv, in.AssertedType); done {
				if in.CommaOk {
					fr.regs[in] = TupleV{res, okT}
					return nil, nil
				}
				st.assume(okT.T) // a failing assertion panics
				fr.regs[in] = res
				return nil, nil
			}
		}
		// opaque interface: the assertion result is unknown
		okT := mkBool(e.C.Fresh("assert_ok", SBool))
		res := e.freshVal(st, "asserted", in.AssertedType, 2)
		if in.CommaOk {
			fr.regs[in] = TupleV{res, okT}
			return nil, nil
		}
		st.assume(okT.T) // failing assertion panics
		fr.regs[in] = res
		st.notes = append(st.notes, "type assertion on opaque interface in "+fr.fn.Name())
		return nil, nil
	}
	unsupported("TypeAssert on %s", valString(x))
	return nil, nil
}

func (e *Engine) lookup(st *State, fr *Frame, in *ssa.Lookup) Val {
	x := e.eval(st, fr, in.X)
	idx := e.eval(st, fr, in.Index)
	if t, ok := x.(*Term); ok && t.S == SStr {
		e.C.DeclareFun("str_at", []Sort{SStr, BV(64)}, BV(8))
		return mkBV(8, fmt.Sprintf("(str_at %s %s)", t.T, idx.(*Term).T), false)
	}
	if m, ok := x.(*MapV); ok {
		return e.mapLookup(st, fr, in, m)
	}
	unsupported("Lookup on %s", valString(x))
	return nil
}

func (e *Engine) rangeStart(st *State, fr *Frame, in *ssa.Range) Val {
	if m, ok := e.eval(st, fr, in.X).(*MapV); ok {
		return e.rangeStartMap(st, fr, in, m)
	}
	unsupported("range over string in %s", fr.fn.Name())
	return nil
}

func (e *Engine) rangeNext(st *State, fr *Frame, in *ssa.Next) ([]*State, *Outcome) {
	if it, ok := e.eval(st, fr, in.Iter).(*MapIter); ok {
		return e.rangeNextMap(st, fr, in, it)
	}
	unsupported("next over string in %s", fr.fn.Name())
	return nil, nil
}

// ------------------------------------------------------------------------------------------
// sentinels: package-level *errors.Error variables

func (e *Engine) loadGlobal(st *State, name string, t types.Type) Val {
	// name = pkgpath.Var
	if pt, ok := t.(*types.Pointer); ok {
		if n, ok := pt.Elem().(*types.Named); ok && n.Obj().Pkg() != nil && n.Obj().Pkg().Path() == "cosmossdk.io/errors" && n.Obj().Name() == "Error" {
			return &PtrV{Opaque: &Term{S: "ErrSentinel", T: e.sentinel(name)}, T: t}
		}
	}
	if isErrorType(t) {
		return mk(SErr, e.sentinel(name))
	}
	// string constants held in vars, byte-slice prefixes
	if v, ok := e.globalInit(st, name, t); ok {
		return v
	}
	if isByteSlice(t) {
		// a package-level byte-slice constant built by a composite literal: a fixed, non-nil, unknown value (A-GLOBALS)
		n := "|g_" + sanitize(name) + "|"
		e.C.DeclareFun(n, nil, SStr)
		return mk(SBytes, "(mkB false "+n+")")
	}
	if bt, ok := t.Underlying().(*types.Basic); ok {
		// a package-level variable with a non-constant initialiser: an unknown but fixed value (A-GLOBALS:
		// package variables are not reassigned after init)
		n := "|g_" + sanitize(name) + "|"
		switch {
		case bt.Info()&types.IsString != 0:
			e.C.DeclareFun(n, nil, SStr)
			return mk(SStr, n)
		case bt.Info()&types.IsInteger != 0:
			w, sg := intInfo(bt)
			e.C.DeclareFun(n, nil, BV(w))
			return mkBV(w, n, sg)
		case bt.Info()&types.IsBoolean != 0:
			e.C.DeclareFun(n, nil, SBool)
			return mkBool(n)
		}
	}
	if _, ok := t.Underlying().(*types.Struct); ok && !e.transparentStruct(t) {
		o := mk("Obj", e.globalObj(name))
		o.GoT = t
		return o
	}
	switch t.Underlying().(type) {
	case *types.Interface, *types.Pointer, *types.Signature, *types.Map:
		o := mk("Obj", e.globalObj(name))
		o.GoT = t
		if _, isPtr := t.Underlying().(*types.Pointer); isPtr {
			return &PtrV{Opaque: o, T: t}
		}
		return o
	}
	if isByteArrayType(t) {
		// a package-level byte array (a hash constant computed at init): an unknown but fixed value (A-GLOBALS)
		n := "|g_" + sanitize(name) + "|"
		e.C.DeclareFun(n, nil, SStr)
		st.assume(fmt.Sprintf("(= (slen %s) %s)", n, bvLit(uint64(t.Underlying().(*types.Array).Len()), 64)))
		return &Term{S: "Arr", T: n}
	}
	unsupported("load of global %s : %s", name, t)
	return nil
}

func (e *Engine) globalObj(name string) string {
	n := "|g_" + sanitize(name) + "|"
	e.C.DeclareFun(n, nil, "Obj")
	return n
}

func (e *Engine) sentinel(name string) string {
	n := "|ERR_" + sanitize(name) + "|"
	e.mu.Lock()
	defer e.mu.Unlock()
	if !e.sentinels[n] {
		e.sentinels[n] = true
		e.C.DeclareFun(n, nil, SErr)
		e.C.Axiom("(is_sentinel " + n + ")")
		e.C.Axiom("(not (= " + n + " err_nil))")
		var names []string
		for k := range e.sentinels {
			names = append(names, k)
		}
		sort.Strings(names)
		e.sentinelList = names
	}
	return n
}

// globalInit evaluates simple package-level initialisers: X = []byte("lit"), X = "lit".
func (e *Engine) globalInit(st *State, name string, t types.Type) (Val, bool) {
	i := strings.LastIndex(name, ".")
	pkgPath, vn := name[:i], name[i+1:]
	var spkg *ssa.Package
	for _, sp := range e.W.Prog.AllPackages() {
		if sp.Pkg.Path() == pkgPath {
			spkg = sp
		}
	}
	if spkg == nil {
		return nil, false
	}
	initFn := spkg.Func("init")
	if initFn == nil {
		return nil, false
	}
	g, _ := spkg.Members[vn].(*ssa.Global)
	if g == nil {
		return nil, false
	}
	for _, b := range initFn.Blocks {
		for _, in := range b.Instrs {
			s, ok := in.(*ssa.Store)
			if !ok || s.Addr != g {
				continue
			}
			switch v := s.Val.(type) {
			case *ssa.Const:
				return e.constVal(v), true
			case *ssa.Convert:
				if c, ok := v.X.(*ssa.Const); ok && isByteSlice(v.Type()) && c.Value != nil {
					return mk(SBytes, "(mkB false "+e.C.StrLit(constant.StringVal(c.Value))+")"), true
				}
			case *ssa.Call:
				// var x = big.NewInt(<constant>)
				if fn, ok := v.Call.Value.(*ssa.Function); ok && FuncKey(fn) == "math/big::NewInt" {
					if c, ok := v.Call.Args[0].(*ssa.Const); ok && c.Value != nil {
						e.C.DeclareFun("big_of", []Sort{BV(64)}, "Obj")
						return &PtrV{Opaque: mk("Obj", "(big_of "+e.constVal(c).(*Term).T+")"), T: t}, true
					}
				}
			}
		}
	}
	return nil, false
}
