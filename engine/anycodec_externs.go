package main

import (
	"fmt"
	"go/types"

	"golang.org/x/tools/go/ssa"
)

// codec.MarshalInterface / UnmarshalInterface (A-PROTO): an injective uninterpreted encoding of the packed message
// (any_enc), its inverse (any_dec) and a well-formedness predicate (any_ok). The decoded value is an opaque interface
// value: type assertions on it yield views (views.go); the views of a packed struct are its fields (packViews).
func init() {
	anyEnc := func(e *Engine, st *State, fr *Frame, args []Val, fn *ssa.Function, c *ssa.CallCommon) ([]Val, []*State) {
		e.C.DeclareFun("any_enc", []Sort{"Obj"}, SStr)
		e.C.DeclareFun("any_dec", []Sort{SStr}, "Obj")
		e.C.DeclareFun("any_ok", []Sort{SStr}, SBool)
		o := e.packVal(st, args[1])
		enc := "(any_enc " + o.T + ")"
		st.assume(fmt.Sprintf("(= (any_dec %s) %s)", enc, o.T))
		st.assume("(any_ok " + enc + ")")
		er := mk(SErr, e.C.Fresh("anyenc_err", SErr))
		b := mk(SBytes, "(mkB false "+enc+")")
		return []Val{b, er}, nil
	}
	anyDec := func(e *Engine, st *State, fr *Frame, args []Val, fn *ssa.Function, c *ssa.CallCommon) ([]Val, []*State) {
		e.C.DeclareFun("any_dec", []Sort{SStr}, "Obj")
		e.C.DeclareFun("any_ok", []Sort{SStr}, SBool)
		bz := bstrOf(e.toBytesTerm(st, args[1]).T)
		p, ok := args[2].(*PtrV)
		if iv, isI := args[2].(*IfaceV); isI && iv.Dyn != nil {
			p, ok = iv.V.(*PtrV)
		}
		if !ok || p.C == nil {
			unsupported("UnmarshalInterface into %s", valString(args[2]))
		}
		o := mk("Obj", "(any_dec "+bz+")")
		if pt, isPtr := p.T.(*types.Pointer); isPtr {
			o.GoT = pt.Elem()
		}
		er := mk(SErr, e.C.Fresh("anydec_err", SErr))
		st.assume(fmt.Sprintf("(= (= %s err_nil) (any_ok %s))", er.T, bz))
		// on failure the target keeps its old value; modelling it as written in both cases is harmless for code that
		// returns on error (all callers in reach do)
		e.store(st, p, o)
		return []Val{er}, nil
	}
	for _, ci := range []string{"github.com/cosmos/cosmos-sdk/codec.BinaryCodec", "github.com/cosmos/cosmos-sdk/codec.Codec"} {
		reg("iface:"+ci+".MarshalInterface", "(bz, err): bz == any_enc(pack(msg)) (non-nil), any_dec(bz) == pack(msg), any_ok(bz); err unconstrained (A-PROTO)", anyEnc)
		reg("iface:"+ci+".UnmarshalInterface", "err == nil <==> any_ok(bz); *ptr == any_dec(bz) (an opaque interface value; ASSUMED: callers return on error) (A-PROTO)", anyDec)
	}
}

// packViews: the views (views.go) of a packed transparent struct are its fields, and it is of its type.
func (e *Engine) packViews(st *State, sv *StructV, pk *Term) {
	tag := typeTag(sv.T)
	st.assume(e.isaTerm(pk, sv.T))
	var walk func(sv *StructV, prefix string, depth int)
	walk = func(sv *StructV, prefix string, depth int) {
		stt, ok := sv.T.Underlying().(*types.Struct)
		if !ok {
			return
		}
		for i, f := range sv.F {
			if i >= stt.NumFields() {
				break
			}
			path := stt.Field(i).Name()
			if prefix != "" {
				path = prefix + "_" + path
			}
			switch x := f.(type) {
			case *Term:
				var s Sort
				switch {
				case x.S == SBool, x.S == SStr, x.S == SBytes, x.S == SInt, x.S == SErr, x.S.BVWidth() > 0:
					s = x.S
				case x.S == "Obj":
					s = "Obj"
				default:
					continue
				}
				name := "fld_" + tag + "_" + path
				e.C.DeclareFun(name, []Sort{"Obj"}, s)
				st.assume(fmt.Sprintf("(= (%s %s) %s)", name, pk.T, x.T))
			case *StructV:
				if depth < 5 {
					walk(x, path, depth+1)
				}
			}
		}
	}
	walk(sv, "", 0)
}

func init() {
	reg("github.com/cosmos/cosmos-sdk/codec/types::(*Any).GetCachedValue", "pure: the unpacked value cached in the Any: any_cached(a) (an opaque interface value, a function of the Any)", func(e *Engine, st *State, fr *Frame, a []Val, fn *ssa.Function, c *ssa.CallCommon) ([]Val, []*State) {
		e.C.DeclareFun("any_cached", []Sort{"Obj"}, "Obj")
		var in *Term
		if o := opaqueOf(a[0]); o != nil {
			in = o
		} else {
			in = e.packVal(st, a[0])
		}
		o := mk("Obj", "(any_cached "+in.T+")")
		o.GoT = fn.Signature.Results().At(0).Type()
		return []Val{o}, nil
	})
}
