package main

// C20 inventory: every source of non-determinism (map iteration, wall clock, randomness, OS / file system, goroutines,
// select, sync primitives) in code reachable from a state-machine entry point must be on the reviewed list
// /verif/specs/c20_allow.txt (one line per function: `<function> <kind> -- justification`). A new occurrence anywhere
// else fails the check; a listed occurrence that disappeared is only noted.

import (
	"fmt"
	"go/types"
	"os"
	"path/filepath"
	"sort"
	"strings"

	"golang.org/x/tools/go/callgraph/cha"
	"golang.org/x/tools/go/ssa"
)

func isStateMachinePkg(path string) bool {
	if !strings.HasPrefix(path, repoModule+"/modules/tibc/") {
		return false
	}
	for _, skip := range []string{"/client/cli", "/client/utils", "/simulation", "/testing", "/client"} {
		if strings.HasSuffix(path, skip) || strings.Contains(path, skip+"/") {
			return false
		}
	}
	return true
}

// isEntryPoint: where a transaction, a block hook, genesis or a relayed packet can enter the state machine.
func isEntryPoint(fn *ssa.Function) bool {
	if fn.Object() == nil || !fn.Object().Exported() {
		return false
	}
	switch fn.Name() {
	case "InitGenesis", "ExportGenesis", "BeginBlock", "EndBlock", "BeginBlocker", "EndBlocker":
		return true
	}
	recv := fn.Signature.Recv()
	if recv == nil {
		return strings.HasPrefix(fn.Name(), "Handle") && strings.HasSuffix(fn.Name(), "Proposal")
	}
	t := recv.Type()
	if p, ok := t.(*types.Pointer); ok {
		t = p.Elem()
	}
	n, ok := t.(*types.Named)
	if !ok {
		return false
	}
	switch n.Obj().Name() {
	case "msgServer", "Keeper", "AppModule", "ClientState", "ConsensusState", "Header", "Router":
		return true
	}
	return false
}

func nondetKinds(fn *ssa.Function) []string {
	seen := map[string]bool{}
	for _, b := range fn.Blocks {
		for _, in := range b.Instrs {
			switch x := in.(type) {
			case *ssa.Range:
				if _, ok := x.X.Type().Underlying().(*types.Map); ok {
					seen["map-range"] = true
				}
			case *ssa.Go:
				seen["goroutine"] = true
			case *ssa.Select:
				seen["select"] = true
			case ssa.CallInstruction:
				c := x.Common()
				if f, ok := c.Value.(*ssa.Function); ok {
					p := fnPkgPath(f)
					switch {
					case p == "time" && (f.Name() == "Now" || f.Name() == "Since" || f.Name() == "Until"):
						seen["wall-clock"] = true
					case p == "math/rand" || p == "math/rand/v2" || p == "crypto/rand":
						seen["randomness"] = true
					case p == "os" || p == "io/ioutil" || p == "os/exec" || p == "os/user":
						seen["os/filesystem"] = true
					case p == "sync" || p == "sync/atomic":
						seen["sync"] = true
					case p == "runtime" && (f.Name() == "NumCPU" || f.Name() == "GOMAXPROCS"):
						seen["runtime"] = true
					}
				}
			}
		}
	}
	var out []string
	for k := range seen {
		out = append(out, k)
	}
	sort.Strings(out)
	return out
}

func init() {
	inventoryChecks["C20.nondeterminism"] = func(w *World) InventoryResult {
		res := InventoryResult{Name: "C20.nondeterminism"}
		// allow list
		allow := map[string]string{}
		allowFiles := map[string]string{}
		if data, err := os.ReadFile(filepath.Join(verifDir, "specs", "c20_allow.txt")); err == nil {
			for _, l := range strings.Split(string(data), "\n") {
				l = strings.TrimSpace(l)
				if l == "" || strings.HasPrefix(l, "#") {
					continue
				}
				parts := strings.SplitN(l, "--", 2)
				f := strings.Fields(parts[0])
				if len(f) >= 2 && f[0] == "file" {
					allowFiles[f[1]] = strings.TrimSpace(strings.Join(parts[1:], ""))
					continue
				}
				if len(f) >= 2 {
					allow[f[0]+" "+f[1]] = strings.TrimSpace(strings.Join(parts[1:], ""))
				}
			}
		}
		cg := cha.CallGraph(w.Prog)
		// roots: every exported method / function of the state-machine packages (msg servers, keepers, app modules,
		// light-client states): everything a transaction, a block hook or genesis can enter
		var work []*ssa.Function
		reach := map[*ssa.Function]bool{}
		for fn := range cg.Nodes {
			if fn == nil || fn.Blocks == nil {
				continue
			}
			p := fnPkgPath(fn)
			if !isStateMachinePkg(p) {
				continue
			}
			file := w.Prog.Fset.Position(fn.Pos()).Filename
			if strings.HasSuffix(file, "_test.go") || strings.HasSuffix(file, ".pb.go") || strings.HasSuffix(file, ".pb.gw.go") {
				continue
			}
			if isEntryPoint(fn) && !reach[fn] {
				reach[fn] = true
				work = append(work, fn)
			}
		}
		for len(work) > 0 {
			fn := work[len(work)-1]
			work = work[:len(work)-1]
			n := cg.Nodes[fn]
			if n == nil {
				continue
			}
			for _, e := range n.Out {
				cal := e.Callee.Func
				if cal == nil || reach[cal] || cal.Blocks == nil {
					continue
				}
				if !strings.HasPrefix(fnPkgPath(cal), repoModule) {
					continue // dependencies are outside the inventory (assumed deterministic: SDK, IAVL, cometbft)
				}
				file := w.Prog.Fset.Position(cal.Pos()).Filename
				if strings.HasSuffix(file, "_test.go") || !isStateMachinePkg(fnPkgPath(cal)) {
					continue
				}
				reach[cal] = true
				work = append(work, cal)
			}
			for _, an := range fn.AnonFuncs {
				if !reach[an] {
					reach[an] = true
					work = append(work, an)
				}
			}
		}
		var found []string
		seenKey := map[string]bool{}
		for fn := range reach {
			if !strings.HasPrefix(fnPkgPath(fn), repoModule) {
				continue
			}
			file := w.Prog.Fset.Position(fn.Pos()).Filename
			if strings.HasSuffix(file, ".pb.go") || strings.HasSuffix(file, ".pb.gw.go") {
				continue
			}
			rel := strings.TrimPrefix(file, w.RepoDir+"/")
			for _, k := range nondetKinds(fn) {
				if why, ok := allowFiles[rel]; ok {
					fk := "file " + rel
					if !seenKey[fk] {
						seenKey[fk] = true
						res.Items = append(res.Items, fk+" -- reviewed (whole file): "+why)
					}
					continue
				}
				name := shortKey(FuncKey(fn))
				if fn.Parent() != nil {
					name = shortKey(FuncKey(fn.Parent())) + "$" + fn.Name()
				}
				key := name + " " + k
				if seenKey[key] {
					continue
				}
				seenKey[key] = true
				found = append(found, key)
			}
		}
		sort.Strings(found)
		for _, f := range found {
			if why, ok := allow[f]; ok {
				res.Items = append(res.Items, f+" -- reviewed: "+why)
			} else {
				res.Items = append(res.Items, f+" -- NOT REVIEWED")
				res.Violations = append(res.Violations, fmt.Sprintf("unreviewed source of non-determinism reachable from the state machine: %s\n(add a determinacy argument to specs/c20_allow.txt only if the result and the store writes of the function do not depend on it)", f))
			}
		}
		for k := range allow {
			if !seenKey[k] {
				res.Items = append(res.Items, k+" -- listed but no longer present")
			}
		}
		return res
	}
}
