package main

// Symbolic values held by the executor.

import (
	"fmt"
	"go/types"
	"strings"

	"golang.org/x/tools/go/ssa"
)

type Val interface{}

// Term is an SMT term of a first-order sort.
type Term struct {
	S      Sort
	T      string
	Signed bool
	Key    *Term // for Bytes/Str built by a key-builder: the Key datatype term it represents
	Sub    *SubKey
	GoT    types.Type // optional: the Go type this stands for (opaque values)
}

// SubKey marks a byte string that is a key *inside* a prefix store (e.g. a client store).
type SubKey struct {
	Ctor string
	Args []*Term
}

func (t *Term) String() string { return t.T }

func mk(s Sort, t string) *Term          { return &Term{S: s, T: t} }
func mkBool(t string) *Term              { return &Term{S: SBool, T: t} }
func mkBV(w int, t string, sg bool) *Term { return &Term{S: BV(w), T: t, Signed: sg} }

var (
	tTrue  = mkBool("true")
	tFalse = mkBool("false")
)

type StructV struct {
	T types.Type // the (possibly named) struct type
	F []Val
}

type ArrayV struct {
	ElemT types.Type
	E     []Val
}

type Cell struct {
	ID   int
	Name string
}

// PtrV is a pointer to (a sub-object of) a heap cell, or nil.
type PtrV struct {
	C    *Cell
	Path []int
	Nil  bool
	T    types.Type // pointer type (optional)
	// Opaque pointer identity (e.g. a registered error sentinel): no cell
	Opaque *Term
}

// SliceV is a slice with concrete bounds over a concrete backing array cell.
type SliceV struct {
	Base   *PtrV // pointer to ArrayV
	Lo, Hi int
	ElemT  types.Type
	Nil    bool
}

// IfaceV is an interface value whose dynamic type is known. Dyn == nil means nil interface.
type IfaceV struct {
	Dyn types.Type
	V   Val
}

type ClosureV struct {
	Fn   *ssa.Function
	Bind []Val
}

type FuncV struct {
	Fn *ssa.Function
}

// BoundMethodV: method value bound to receiver (MakeClosure over a bound-method wrapper is handled as ClosureV)
type TupleV []Val

// StoreHandleV is a KVStore: a ghost store variable plus a key prefix.
type StoreHandleV struct {
	Ghost  string // name of the ghost store ("tibc", ...)
	Prefix *Term  // nil for the root store; otherwise a Str term: the client name for client stores
	Kind   string // "", "client": prefix kind
	Opaque *Term  // a store handle passed in as a parameter (unknown prefix): keys become pfx(Opaque, key)
}

// MapV: a Go map with symbolic contents; only len / lookup / update through uninterpreted functions
type MapV struct {
	T  *types.Map
	Id *Term
	C  *Cell // heap cell holding the *MapState (nil: contents untracked)
}

// IterV: state of a range-over-slice/map iteration handled by unrolling over concrete slices
type IterV struct {
	Over Val
	Idx  int
}

// NoiseV is the result of a call into the pure-noise class (logger, telemetry, fmt...).
type NoiseV struct{ What string }

func valString(v Val) string {
	switch x := v.(type) {
	case nil:
		return "<nil>"
	case *Term:
		return fmt.Sprintf("%s:%s", x.T, x.S)
	case *StructV:
		var parts []string
		for _, f := range x.F {
			parts = append(parts, valString(f))
		}
		return "{" + strings.Join(parts, ", ") + "}"
	case *PtrV:
		if x.Nil {
			return "nilptr"
		}
		if x.Opaque != nil {
			return "&" + x.Opaque.T
		}
		return fmt.Sprintf("&cell%d%v", x.C.ID, x.Path)
	case *IfaceV:
		if x.Dyn == nil {
			return "nil-iface"
		}
		return fmt.Sprintf("iface(%s, %s)", x.Dyn, valString(x.V))
	case *SliceV:
		return fmt.Sprintf("slice[%d:%d]", x.Lo, x.Hi)
	case TupleV:
		var parts []string
		for _, f := range x {
			parts = append(parts, valString(f))
		}
		return "(" + strings.Join(parts, ", ") + ")"
	case *StoreHandleV:
		return "store:" + x.Ghost
	case *NoiseV:
		return "noise:" + x.What
	case *ClosureV:
		return "closure:" + x.Fn.Name()
	case *FuncV:
		return "func:" + x.Fn.Name()
	}
	return fmt.Sprintf("%T", v)
}

func isByteElem(t types.Type) bool {
	if t == nil {
		return false
	}
	b, ok := t.Underlying().(*types.Basic)
	return ok && b.Kind() == types.Uint8
}
