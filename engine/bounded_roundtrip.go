package main

// Bounded check C16.roundtrip: the value-level export -> JSON -> import round trip on real stores, which the C16
// contracts (import side only) and inventories (coverage only) do not decide. Labelled bounded.

import (
	"encoding/json"
	"fmt"
	"os"
	"os/exec"
	"path/filepath"
	"strings"
	"time"
)

func init() {
	boundedChecks["C16.roundtrip"] = func(tier string, seed int, overlay map[string][]byte) BoundedResult {
		t0 := time.Now()
		variants := 6
		if tier == "thorough" {
			variants = 40
		}
		res := BoundedResult{Name: "C16.roundtrip", Bound: fmt.Sprintf("%d seeded variants of a populated TIBC store (1-3 Tendermint clients, 1-4 consensus states each at heights from {1, 47, 48, 303, 12079, 3092271, 2^40} in revisions 0/1 with processed-time metadata, relayer entries for chains with and without a client, 1-5 packets with commitment/receipt/acknowledgement/next-send-sequence, 1-2 routing rules); real ExportGenesis -> JSON -> real InitGenesis into a fresh simapp chain; every key/value pair of both stores compared; families without any genesis coverage (F-16a, F-16c) are not populated; seed %d", variants, seed)}
		fail := func(key, detail string) BoundedResult {
			res.Violations = append(res.Violations, BoundedViolation{Key: key, Detail: detail})
			res.WallS = time.Since(t0).Seconds()
			return res
		}
		dir, err := os.MkdirTemp(filepath.Join(verifDir, ".tmp"), "roundtrip")
		if err != nil {
			return fail("harness", err.Error())
		}
		defer os.RemoveAll(dir)
		repo := repoDir()
		replace := map[string]string{}
		for p, data := range overlay {
			f := filepath.Join(dir, "ov_"+sanitize(p)+".go")
			os.WriteFile(f, data, 0o644)
			replace[p] = f
		}
		src, err := os.ReadFile(filepath.Join(verifDir, "bounded", "genesis_roundtrip_test.go.txt"))
		if err != nil {
			return fail("harness", err.Error())
		}
		pkgRel := "modules/tibc/core"
		tp := filepath.Join(dir, "zz_roundtrip_test.go")
		os.WriteFile(tp, src, 0o644)
		replace[filepath.Join(repo, pkgRel, "zz_roundtrip_bounded_test.go")] = tp
		ov, _ := json.Marshal(map[string]any{"Replace": replace})
		ovp := filepath.Join(dir, "ov.json")
		os.WriteFile(ovp, ov, 0o644)
		cmd := exec.Command("go", "test", "-overlay", ovp, "-vet=off", "-count=1", "-v", "-timeout", "900s", "-run", "TestZZGenesisRoundTrip", "./"+pkgRel+"/")
		cmd.Dir = repo
		cmd.Env = append(os.Environ(), "GOFLAGS=-mod=mod", "GOPROXY=off", "GOSUMDB=off", "GOTOOLCHAIN=local", fmt.Sprintf("ZZ_VARIANTS=%d", variants), fmt.Sprintf("ZZ_SEED=%d", seed+1))
		out, runErr := cmd.CombinedOutput()
		text := string(out)
		seen := false
		for _, l := range strings.Split(text, "\n") {
			switch {
			case strings.HasPrefix(l, "RTCASES "):
				fmt.Sscanf(l, "RTCASES %d", &res.Cases)
				seen = true
			case strings.HasPrefix(l, "RTVIOL "):
				rest := strings.TrimPrefix(l, "RTVIOL ")
				key := strings.SplitN(rest, " ", 2)[0]
				res.Violations = append(res.Violations, BoundedViolation{Key: key, Detail: "bounded check C16.roundtrip: class (lost / extra / changed : key family) and first instance:\n  " + rest + "\n"})
			}
		}
		if !seen {
			tail := text
			if len(tail) > 3000 {
				tail = tail[len(tail)-3000:]
			}
			return fail("harness", fmt.Sprintf("the bounded test did not run to completion (%v):\n%s", runErr, tail))
		}
		res.WallS = time.Since(t0).Seconds()
		return res
	}
}
