package main

import (
	"fmt"

	"golang.org/x/tools/go/ssa"
)

func init() {
	reg("math/big::(*Int).Cmp", "for two integers made from int64 values (big_of(a), big_of(b)): -1/0/1 by signed comparison of a and b; otherwise an unconstrained result in {-1,0,1}", func(e *Engine, st *State, fr *Frame, a []Val, fn *ssa.Function, c *ssa.CallCommon) ([]Val, []*State) {
		x, y := opaqueOf(a[0]), opaqueOf(a[1])
		if x == nil || y == nil {
			unsupported("big.Int.Cmp on %s, %s", valString(a[0]), valString(a[1]))
		}
		e.C.DeclareFun("big_of", []Sort{BV(64)}, "Obj")
		e.C.DeclareFun("big_cmp", []Sort{"Obj", "Obj"}, BV(64))
		// nil operands panic: the surviving path has non-nil ones
		e.C.DeclareFun("obj_nil", []Sort{"Obj"}, SBool)
		st.assume("(not (obj_nil " + x.T + "))")
		st.assume("(not (obj_nil " + y.T + "))")
		r := mkBV(64, fmt.Sprintf("(big_cmp %s %s)", x.T, y.T), true)
		ax, okx := bigOfArg(x.T)
		ay, oky := bigOfArg(y.T)
		if okx && oky {
			st.assume(fmt.Sprintf("(= %s (ite (bvslt %s %s) #xffffffffffffffff (ite (= %s %s) #x0000000000000000 #x0000000000000001)))", r.T, ax, ay, ax, ay))
		} else {
			st.assume(fmt.Sprintf("(or (= %s #xffffffffffffffff) (= %s #x0000000000000000) (= %s #x0000000000000001))", r.T, r.T, r.T))
		}
		return []Val{r}, nil
	})
}

// bigOfArg: the argument of a term of the shape (big_of x).
func bigOfArg(t string) (string, bool) {
	const p = "(big_of "
	if len(t) > len(p)+1 && t[:len(p)] == p && t[len(t)-1] == ')' {
		return t[len(p) : len(t)-1], true
	}
	return "", false
}

func init() {
	reg(gethCommon+"::BytesToAddress", "addr20(b): the 20-byte address (b cropped from the left / left-padded)", func(e *Engine, st *State, fr *Frame, a []Val, fn *ssa.Function, c *ssa.CallCommon) ([]Val, []*State) {
		return []Val{&Term{S: "Arr", T: e.addr20(st, bstrOf(e.toBytesTerm(st, a[0]).T))}}, nil
	})
	reg(gethCommon+"::(Address).Bytes", "the 20 bytes of the address", func(e *Engine, st *State, fr *Frame, a []Val, fn *ssa.Function, c *ssa.CallCommon) ([]Val, []*State) {
		t, ok := a[0].(*Term)
		if !ok || t.S != "Arr" {
			unsupported("Address.Bytes on %s", valString(a[0]))
		}
		return []Val{mk(SBytes, "(mkB false "+t.T+")")}, nil
	})
	reg(gethCommon+"::(Address).Hex", "hex text of the address (uninterpreted)", func(e *Engine, st *State, fr *Frame, a []Val, fn *ssa.Function, c *ssa.CallCommon) ([]Val, []*State) {
		e.C.DeclareFun("addr_hex", []Sort{SStr}, SStr)
		t, ok := a[0].(*Term)
		if !ok || t.S != "Arr" {
			unsupported("Address.Hex on %s", valString(a[0]))
		}
		return []Val{mk(SStr, "(addr_hex "+t.T+")")}, nil
	})
}

func (e *Engine) addr20(st *State, b string) string {
	e.C.DeclareFun("addr20", []Sort{SStr}, SStr)
	t := "(addr20 " + b + ")"
	if !containsBound(t) {
		st.assume("(= (slen " + t + ") #x0000000000000014)")
		// an address-sized input is unchanged
		st.assume(fmt.Sprintf("(=> (= (slen %s) #x0000000000000014) (= %s %s))", b, t, b))
	}
	return t
}

func containsBound(t string) bool {
	for i := 0; i+3 <= len(t); i++ {
		if t[i] == '|' && t[i+1] == 'q' && t[i+2] == '_' {
			return true
		}
	}
	return false
}

func init() {
	gethTypes := "github.com/ethereum/go-ethereum/core/types"
	reg("math/big::(*Int).SetString", "(z, ok): ok <==> big_num_ok(s, base); z == big_parse(s, base) (ASSUMED: z is not used when ok is false, where Go returns nil)", func(e *Engine, st *State, fr *Frame, a []Val, fn *ssa.Function, c *ssa.CallCommon) ([]Val, []*State) {
		e.C.DeclareFun("big_num_ok", []Sort{SStr, BV(64)}, SBool)
		e.C.DeclareFun("big_parse", []Sort{SStr, BV(64)}, "Obj")
		s, b := a[1].(*Term), a[2].(*Term)
		ok := fmt.Sprintf("(big_num_ok %s %s)", s.T, b.T)
		// the pointer returned on failure is nil in Go; the code in reach never uses it when ok is false, so it is not
		// modelled as nil (a use would go unnoticed: recorded as an assumption of this extern)
		e.C.DeclareFun("obj_nil", []Sort{"Obj"}, SBool)
		st.assume(fmt.Sprintf("(=> %s (not (obj_nil (big_parse %s %s))))", ok, s.T, b.T))
		return []Val{&PtrV{Opaque: mk("Obj", fmt.Sprintf("(big_parse %s %s)", s.T, b.T))}, mkBool(ok)}, nil
	})
	reg(gethTypes+"::BytesToBloom", "bloom_of(b): the 256-byte bloom filter (opaque)", func(e *Engine, st *State, fr *Frame, a []Val, fn *ssa.Function, c *ssa.CallCommon) ([]Val, []*State) {
		e.C.DeclareFun("bloom_of", []Sort{SStr}, "Obj")
		o := mk("Obj", "(bloom_of "+bstrOf(e.toBytesTerm(st, a[0]).T)+")")
		o.GoT = fn.Signature.Results().At(0).Type()
		return []Val{o}, nil
	})
	reg(gethTypes+"::EncodeNonce", "nonce8(n): the 8-byte big-endian nonce", func(e *Engine, st *State, fr *Frame, a []Val, fn *ssa.Function, c *ssa.CallCommon) ([]Val, []*State) {
		e.C.DeclareFun("nonce8", []Sort{BV(64)}, SStr)
		t := "(nonce8 " + a[0].(*Term).T + ")"
		st.assume("(= (slen " + t + ") #x0000000000000008)")
		return []Val{&Term{S: "Arr", T: t}}, nil
	})
	reg("math/big::(*Int).Uint64", "big_u64(x): the low 64 bits (uninterpreted); big_u64(big_of(v)) == v", func(e *Engine, st *State, fr *Frame, a []Val, fn *ssa.Function, c *ssa.CallCommon) ([]Val, []*State) {
		x := opaqueOf(a[0])
		if x == nil {
			if p, ok := a[0].(*PtrV); ok && p.Nil {
				panic(&NilDeref{"(*big.Int).Uint64 on nil"})
			}
			unsupported("big.Int.Uint64 on %s", valString(a[0]))
		}
		e.C.DeclareFun("big_u64", []Sort{"Obj"}, BV(64))
		// a nil receiver panics: the surviving path has a non-nil one
		e.C.DeclareFun("obj_nil", []Sort{"Obj"}, SBool)
		st.assume("(not (obj_nil " + x.T + "))")
		if arg, ok := bigOfArg(x.T); ok {
			return []Val{mkBV(64, arg, false)}, nil
		}
		return []Val{mkBV(64, "(big_u64 "+x.T+")", false)}, nil
	})
}

func init() {
	reg("github.com/cosmos/gogoproto/proto::CompactTextString", "pure: the text form of a message (an unconstrained string; used in error texts only)", func(e *Engine, st *State, fr *Frame, a []Val, fn *ssa.Function, c *ssa.CallCommon) ([]Val, []*State) {
		return []Val{mk(SStr, e.C.Fresh("prototext", SStr))}, nil
	})
}
