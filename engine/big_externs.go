package main

import (
	"fmt"

	"golang.org/x/tools/go/ssa"
)

func init() {
	reg("math/big::(*Int).Cmp", "for two integers made from int64 values (big_of(a), big_of(b)): -1/0/1 by signed comparison of a and b; otherwise an unconstrained result in {-1,0,1}", func(e *Engine, st *State, fr *Frame, a []Val, fn *ssa.Function, c *ssa.CallCommon) ([]Val, []*State) {
		x, y := opaqueOf(a[0]), opaqueOf(a[1])
		if x == nil || y == nil {
			unsupported("big.Int.Cmp on %s, %s", valString(a[0]), valString(a[1]))
		}
		e.C.DeclareFun("big_of", []Sort{BV(64)}, "Obj")
		e.C.DeclareFun("big_cmp", []Sort{"Obj", "Obj"}, BV(64))
		r := mkBV(64, fmt.Sprintf("(big_cmp %s %s)", x.T, y.T), true)
		ax, okx := bigOfArg(x.T)
		ay, oky := bigOfArg(y.T)
		if okx && oky {
			st.assume(fmt.Sprintf("(= %s (ite (bvslt %s %s) #xffffffffffffffff (ite (= %s %s) #x0000000000000000 #x0000000000000001)))", r.T, ax, ay, ax, ay))
		} else {
			st.assume(fmt.Sprintf("(or (= %s #xffffffffffffffff) (= %s #x0000000000000000) (= %s #x0000000000000001))", r.T, r.T, r.T))
		}
		return []Val{r}, nil
	})
}

// bigOfArg: the argument of a term of the shape (big_of x).
func bigOfArg(t string) (string, bool) {
	const p = "(big_of "
	if len(t) > len(p)+1 && t[:len(p)] == p && t[len(t)-1] == ')' {
		return t[len(p) : len(t)-1], true
	}
	return "", false
}

func init() {
	reg(gethCommon+"::BytesToAddress", "addr20(b): the 20-byte address (b cropped from the left / left-padded)", func(e *Engine, st *State, fr *Frame, a []Val, fn *ssa.Function, c *ssa.CallCommon) ([]Val, []*State) {
		return []Val{&Term{S: "Arr", T: e.addr20(st, bstrOf(e.toBytesTerm(st, a[0]).T))}}, nil
	})
	reg(gethCommon+"::(Address).Bytes", "the 20 bytes of the address", func(e *Engine, st *State, fr *Frame, a []Val, fn *ssa.Function, c *ssa.CallCommon) ([]Val, []*State) {
		t, ok := a[0].(*Term)
		if !ok || t.S != "Arr" {
			unsupported("Address.Bytes on %s", valString(a[0]))
		}
		return []Val{mk(SBytes, "(mkB false "+t.T+")")}, nil
	})
	reg(gethCommon+"::(Address).Hex", "hex text of the address (uninterpreted)", func(e *Engine, st *State, fr *Frame, a []Val, fn *ssa.Function, c *ssa.CallCommon) ([]Val, []*State) {
		e.C.DeclareFun("addr_hex", []Sort{SStr}, SStr)
		t, ok := a[0].(*Term)
		if !ok || t.S != "Arr" {
			unsupported("Address.Hex on %s", valString(a[0]))
		}
		return []Val{mk(SStr, "(addr_hex "+t.T+")")}, nil
	})
}

func (e *Engine) addr20(st *State, b string) string {
	e.C.DeclareFun("addr20", []Sort{SStr}, SStr)
	t := "(addr20 " + b + ")"
	if !containsBound(t) {
		st.assume("(= (slen " + t + ") #x0000000000000014)")
		// an address-sized input is unchanged
		st.assume(fmt.Sprintf("(=> (= (slen %s) #x0000000000000014) (= %s %s))", b, t, b))
	}
	return t
}

func containsBound(t string) bool {
	for i := 0; i+3 <= len(t); i++ {
		if t[i] == '|' && t[i+1] == 'q' && t[i+2] == '_' {
			return true
		}
	}
	return false
}
