package main

// Evaluation of contract expressions over executor values.

import (
	"fmt"
	"go/types"
	"strconv"
	"strings"

	"golang.org/x/tools/go/ssa"
)

type Env struct {
	e     *Engine
	st    *State
	pkg   string
	vars  map[string]Val
	old   map[string]*Term // ghost state referred to by old(...)
	fr    *Frame
	inOld bool
	calls map[string]*CallRec // bound call records (forall c in calls(F))
}

func (e *Engine) newEnv(st *State, pkg string) *Env {
	return &Env{e: e, st: st, pkg: pkg, vars: map[string]Val{}, old: st.ghostOld, calls: map[string]*CallRec{}}
}

func (env *Env) child() *Env {
	n := *env
	n.vars = map[string]Val{}
	for k, v := range env.vars {
		n.vars[k] = v
	}
	n.calls = map[string]*CallRec{}
	for k, v := range env.calls {
		n.calls[k] = v
	}
	return &n
}

func (e *Engine) sortByName(n string) Sort {
	switch n {
	case "u64", "i64", "int", "uint64", "int64":
		return BV(64)
	case "u32", "i32":
		return BV(32)
	case "u8", "byte":
		return BV(8)
	case "bool":
		return SBool
	case "str", "string":
		return SStr
	case "bytes":
		return SBytes
	case "key":
		return SKey
	case "opt":
		return SOpt
	case "store":
		return SStore
	case "err":
		return SErr
	case "Int", "math":
		return SInt
	case "obj":
		return "Obj"
	case "evlog":
		return "EvLog"
	case "ev":
		return "Ev"
	}
	// declared uninterpreted sort or an array sort written literally
	if strings.HasPrefix(n, "(") {
		return Sort(n)
	}
	if strings.HasPrefix(n, "set_") || strings.HasPrefix(n, "map_") {
		return e.compoundSort(n)
	}
	e.C.DeclareSort(n)
	return Sort(n)
}

// compoundSort: "map_key_u64" = (Array Key (_ BitVec 64)); "set_key" = (Array Key Bool)
func (e *Engine) compoundSort(n string) Sort {
	parts := strings.Split(n, "_")
	if parts[0] == "set" && len(parts) == 2 {
		return Sort(fmt.Sprintf("(Array %s Bool)", e.sortByName(parts[1])))
	}
	if parts[0] == "map" && len(parts) == 3 {
		return Sort(fmt.Sprintf("(Array %s %s)", e.sortByName(parts[1]), e.sortByName(parts[2])))
	}
	unsupported("sort %q", n)
	return ""
}

func signedSortName(n string) bool {
	switch n {
	case "i64", "int", "int64", "i32":
		return true
	}
	return false
}

func (e *Engine) evalBool(env *Env, x *Expr) string {
	v := e.evalExpr(env, x)
	t, ok := v.(*Term)
	if !ok || t.S != SBool {
		unsupported("expression %s is not boolean (%s)", x, valString(v))
	}
	return t.T
}

func (e *Engine) bindContractVars(env *Env, fr *Frame) {
	fc := fr.fc
	if fc == nil {
		return
	}
	fn := fr.fn
	off := 0
	if fn.Signature.Recv() != nil {
		env.vars["self"] = fr.regs[fn.Params[0]]
		if e0, ok := e.entryVals[fr]; ok {
			env.vars["self"] = e0[0]
		}
		off = 1
	}
	for i, p := range fc.Params {
		if off+i < len(fn.Params) {
			env.vars[p] = fr.regs[fn.Params[off+i]]
		}
	}
	for _, ld := range fc.Lets {
		env.vars[ld.Name] = e.evalExpr(env, ld.E)
	}
}

func (e *Engine) evalExpr(env *Env, x *Expr) Val {
	switch x.Op {
	case "num":
		s := x.Name
		var v uint64
		var err error
		if strings.HasPrefix(s, "0x") {
			v, err = strconv.ParseUint(s[2:], 16, 64)
		} else {
			v, err = strconv.ParseUint(s, 10, 64)
		}
		if err != nil {
			unsupported("number %q", s)
		}
		return &Term{S: "NumLit", T: strconv.FormatUint(v, 10)}
	case "str":
		return mk(SStr, e.C.StrLit(x.Name))
	case "ident":
		return e.evalIdent(env, x.Name)
	case "old":
		n := env.child()
		n.inOld = true
		return e.evalExpr(n, x.Args[0])
	case "ite":
		c := e.evalBool(env, x.Args[0])
		a := e.evalExpr(env, x.Args[1])
		b := e.evalExpr(env, x.Args[2])
		at, bt := e.coerce2(env, a, b)
		return &Term{S: at.S, T: smtIte(c, at.T, bt.T), Signed: at.Signed}
	case "unop":
		v := e.evalExpr(env, x.Args[0])
		t, ok := v.(*Term)
		if !ok {
			unsupported("unary %s on %s", x.Name, valString(v))
		}
		if x.Name == "!" {
			return mkBool(smtNot(t.T))
		}
		if t.S == SInt {
			return mk(SInt, "(- "+t.T+")")
		}
		if t.S == "NumLit" {
			n, _ := strconv.ParseUint(t.T, 10, 64)
			return mkBV(64, bvLit(uint64(-int64(n)), 64), true)
		}
		return &Term{S: t.S, T: "(bvneg " + t.T + ")", Signed: t.Signed}
	case "binop":
		return e.evalBinop(env, x)
	case "forall", "exists":
		n := env.child()
		var bs []string
		for _, b := range x.Binders {
			s := e.sortByName(b.Sort)
			name := "|q_" + b.Name + "|"
			n.vars[b.Name] = &Term{S: s, T: name, Signed: signedSortName(b.Sort)}
			bs = append(bs, fmt.Sprintf("(%s %s)", name, s))
		}
		body := e.evalBool(n, x.Args[0])
		return mkBool(fmt.Sprintf("(%s (%s) %s)", x.Op, strings.Join(bs, " "), body))
	case "field":
		return e.evalField(env, x)
	case "method":
		return e.evalMethod(env, x)
	case "call":
		return e.evalCall(env, x)
	case "index":
		a := e.evalExpr(env, x.Args[0])
		k := e.evalExpr(env, x.Args[1])
		at, ok := a.(*Term)
		if !ok {
			unsupported("index on %s", valString(a))
		}
		if strings.HasPrefix(string(at.S), "(Array ") {
			ks, vs := arraySorts(at.S)
			kt := e.coerceTo(env, k, ks)
			return &Term{S: vs, T: fmt.Sprintf("(select %s %s)", at.T, kt.T)}
		}
		unsupported("index on sort %s", at.S)
	case "update":
		a := e.evalExpr(env, x.Args[0]).(*Term)
		ks, vs := arraySorts(a.S)
		k := e.coerceTo(env, e.evalExpr(env, x.Args[1]), ks)
		v := e.coerceTo(env, e.evalExpr(env, x.Args[2]), vs)
		return &Term{S: a.S, T: fmt.Sprintf("(store %s %s %s)", a.T, k.T, v.T)}
	case "called":
		n := 0
		for _, c := range env.st.log {
			if e.calleeMatches(c, x.Name) {
				n++
			}
		}
		if n > 0 {
			return tTrue
		}
		return tFalse
	case "ncalls":
		n := 0
		for _, c := range env.st.log {
			if e.calleeMatches(c, x.Name) {
				n++
			}
		}
		return &Term{S: "NumLit", T: strconv.Itoa(n)}
	case "forcalls", "existscalls":
		var parts []string
		for _, c := range env.st.log {
			if !e.calleeMatches(c, x.Name) {
				continue
			}
			n := env.child()
			n.calls[x.Binders[0].Name] = c
			parts = append(parts, e.evalBool(n, x.Args[0]))
		}
		if x.Op == "forcalls" {
			return mkBool(smtAnd(parts...))
		}
		return mkBool(smtOr(parts...))
	}
	unsupported("expression %s", x)
	return nil
}

func arraySorts(s Sort) (Sort, Sort) {
	// "(Array K V)" where K and V may be parenthesised
	body := strings.TrimSuffix(strings.TrimPrefix(string(s), "(Array "), ")")
	depth := 0
	for i, c := range body {
		switch c {
		case '(':
			depth++
		case ')':
			depth--
		case ' ':
			if depth == 0 {
				return Sort(body[:i]), Sort(body[i+1:])
			}
		}
	}
	unsupported("array sort %s", s)
	return "", ""
}

func (e *Engine) calleeMatches(c *CallRec, name string) bool {
	name = strings.ReplaceAll(name, " ", "")
	if c.Short == name {
		return true
	}
	// "(Keeper).RecvPacket" / "TIBCModule.OnRecvPacket" / "PacketKeeper.RecvPacket"
	if strings.HasSuffix(c.Callee, "::"+name) || strings.HasSuffix(c.Callee, "."+name) || strings.HasSuffix(c.Callee, name) {
		return true
	}
	return false
}

func (e *Engine) evalIdent(env *Env, name string) Val {
	if v, ok := env.vars[name]; ok {
		return v
	}
	if c, ok := env.calls[name]; ok {
		return &CallRecV{c}
	}
	switch name {
	case "true":
		return tTrue
	case "false":
		return tFalse
	case "nil":
		return &NilV{}
	case "none":
		return mk(SOpt, "none")
	case "anil":
		return mk("AttrL", "anil")
	case "enil":
		return mk("EvLog", "enil")
	case "MAXU64":
		return mkBV(64, "#xffffffffffffffff", false)
	}
	if _, ok := e.W.Ghosts[name]; ok {
		if env.inOld {
			if env.old == nil {
				unsupported("old(%s) without an entry state", name)
			}
			return env.old[name]
		}
		return env.st.ghost[name]
	}
	if env.fr != nil {
		if v, ok := env.fr.names[name]; ok {
			return v
		}
		if v, ok := env.fr.names["&"+name]; ok {
			return e.load(env.st, v, nil)
		}
	}
	// package alias (resolved by field/method) or spec constant
	if sp, ok := e.W.Specs[name]; ok && len(sp.Params) == 0 {
		return e.applySpec(env, sp, nil)
	}
	imps := e.W.fileImports(env.pkg)
	if p, ok := imps[name]; ok {
		return &PkgV{Path: p}
	}
	// a package-level identifier of the contract's own package
	if v := e.pkgMember(env, env.pkg, name); v != nil {
		return v
	}
	unsupported("unknown identifier %q (package %s)", name, env.pkg)
	return nil
}

type NilV struct{}
type PkgV struct{ Path string }
type CallRecV struct{ C *CallRec }

func (e *Engine) pkgMember(env *Env, pkgPath, name string) Val {
	var spkg *ssa.Package
	if pi := e.W.Pkgs[pkgPath]; pi != nil {
		spkg = pi.S
	} else {
		for _, sp := range e.W.Prog.AllPackages() {
			if sp.Pkg.Path() == pkgPath {
				spkg = sp
				break
			}
		}
	}
	if spkg == nil {
		return nil
	}
	switch m := spkg.Members[name].(type) {
	case *ssa.Global:
		return e.load(env.st, e.globalAddr(env.st, m), nil)
	case *ssa.NamedConst:
		return e.constVal(m.Value)
	case *ssa.Function:
		return &FuncV{Fn: m}
	}
	return nil
}

func (e *Engine) evalField(env *Env, x *Expr) Val {
	base := e.evalExpr(env, x.Args[0])
	switch b := base.(type) {
	case *PkgV:
		v := e.pkgMember(env, b.Path, x.Name)
		if v == nil {
			unsupported("%s has no member %s", b.Path, x.Name)
		}
		if p, ok := v.(*PtrV); ok && p.Opaque != nil && p.Opaque.S == "ErrSentinel" {
			return mk(SErr, p.Opaque.T)
		}
		return v
	case *CallRecV:
		if v, ok := b.C.Params[x.Name]; ok {
			return v
		}
		if v, ok := b.C.Results[x.Name]; ok {
			return v
		}
		if g, ok := b.C.Pre[strings.TrimPrefix(x.Name, "pre_")]; ok && strings.HasPrefix(x.Name, "pre_") {
			return g
		}
		if g, ok := b.C.Post[strings.TrimPrefix(x.Name, "post_")]; ok && strings.HasPrefix(x.Name, "post_") {
			return g
		}
		unsupported("call record of %s has no %q", b.C.Callee, x.Name)
	}
	return e.fieldOf(env.st, base, x.Name)
}

func (e *Engine) fieldOf(st *State, base Val, name string) Val {
	switch b := base.(type) {
	case *PtrV:
		if b.C != nil {
			return e.fieldOf(st, e.load(st, b, nil), name)
		}
		if b.Nil {
			panic(&NilDeref{"field " + name + " of a nil pointer in a contract expression"})
		}
	case *IfaceV:
		if b.Dyn != nil {
			return e.fieldOf(st, b.V, name)
		}
		panic(&NilDeref{"field " + name + " of a nil interface in a contract expression"})
	case *StructV:
		stt := b.T.Underlying().(*types.Struct)
		for i := 0; i < stt.NumFields(); i++ {
			if stt.Field(i).Name() == name {
				return b.F[i]
			}
		}
		// promoted through embedded fields
		for i := 0; i < stt.NumFields(); i++ {
			if stt.Field(i).Embedded() {
				if sv, ok := b.F[i].(*StructV); ok {
					func() {
						defer func() { recover() }()
						_ = sv
					}()
				}
			}
		}
	}
	unsupported("no field %q on %s", name, valString(base))
	return nil
}

func (e *Engine) evalMethod(env *Env, x *Expr) Val {
	// pkg.F(args) or value.M(args)
	if x.Args[0].Op == "ident" {
		if _, bound := env.vars[x.Args[0].Name]; !bound {
			imps := e.W.fileImports(env.pkg)
			if p, ok := imps[x.Args[0].Name]; ok {
				var args []Val
				for _, a := range x.Args[1:] {
					args = append(args, e.evalExpr(env, a))
				}
				if sp, ok := e.W.Specs[x.Name]; ok && sp.Pkg == p {
					return e.applySpec(env, sp, args)
				}
				m := e.pkgMember(env, p, x.Name)
				if fv, ok := m.(*FuncV); ok {
					return e.pureCall(env, fv.Fn, args)
				}
				unsupported("%s.%s is not a function", p, x.Name)
			}
		}
	}
	recv := e.evalExpr(env, x.Args[0])
	var args []Val
	for _, a := range x.Args[1:] {
		args = append(args, e.evalExpr(env, a))
	}
	return e.pureMethod(env, recv, x.Name, args)
}

func (e *Engine) pureMethod(env *Env, recv Val, name string, args []Val) Val {
	switch r := recv.(type) {
	case *IfaceV:
		if r.Dyn != nil {
			fn := e.lookupMethodByName(r.Dyn, name)
			if fn != nil {
				return e.pureCall(env, fn, append([]Val{r.V}, args...))
			}
		}
	case *StructV:
		fn := e.lookupMethodByName(r.T, name)
		if fn != nil {
			return e.pureCall(env, fn, append([]Val{recv}, args...))
		}
	case *PtrV:
		if r.T != nil {
			if fn := e.lookupMethodByName(r.T, name); fn != nil {
				if _, isPtr := fn.Signature.Recv().Type().(*types.Pointer); isPtr {
					return e.pureCall(env, fn, append([]Val{recv}, args...))
				}
				return e.pureCall(env, fn, append([]Val{e.load(env.st, r, nil)}, args...))
			}
		}
	case *Term:
		if r.S == "Obj" {
			// a declared getter of some interface (flags getter): the uninterpreted observer get_<Name>
			var hit string
			for _, k := range sortedKeys(e.W.IfaceC) {
				if strings.HasSuffix(k, "."+name) && e.W.IfaceC[k].Flags["getter"] {
					if r.GoT != nil && ifaceKeyOf(r.GoT, name) != k && hit != "" {
						continue
					}
					hit = k
					if r.GoT != nil && ifaceKeyOf(r.GoT, name) == k {
						break
					}
				}
			}
			if hit != "" {
				if rt := e.ifaceMethodResults("iface:" + hit); rt != nil && rt.Len() == 1 {
					return e.ufApply(env.st, "get_"+name, rt.At(0).Type(), append([]Val{r}, args...))
				}
			}
		}
		if r.GoT != nil {
			return e.opaqueGetter(env.st, r, name, args)
		}
	}
	unsupported("method %s on %s in a contract expression", name, valString(recv))
	return nil
}

func (e *Engine) lookupMethodByName(t types.Type, name string) *ssa.Function {
	ms := e.W.Prog.MethodSets.MethodSet(t)
	for i := 0; i < ms.Len(); i++ {
		if ms.At(i).Obj().Name() == name {
			return e.W.Prog.MethodValue(ms.At(i))
		}
	}
	if _, isPtr := t.(*types.Pointer); !isPtr {
		ms := e.W.Prog.MethodSets.MethodSet(types.NewPointer(t))
		for i := 0; i < ms.Len(); i++ {
			if ms.At(i).Obj().Name() == name {
				return e.W.Prog.MethodValue(ms.At(i))
			}
		}
	}
	return nil
}

// opaqueGetter: an uninterpreted function of the receiver (and arguments), typed by the method's result.
func (e *Engine) opaqueGetter(st *State, recv *Term, name string, args []Val) Val {
	var resT types.Type
	var iface *types.Interface
	if it, ok := recv.GoT.Underlying().(*types.Interface); ok {
		iface = it
		for i := 0; i < iface.NumMethods(); i++ {
			if iface.Method(i).Name() == name {
				sig := iface.Method(i).Type().(*types.Signature)
				if sig.Results().Len() == 1 {
					resT = sig.Results().At(0).Type()
				}
			}
		}
	} else if fn := e.lookupMethodByName(recv.GoT, name); fn != nil && fn.Signature.Results().Len() == 1 {
		resT = fn.Signature.Results().At(0).Type()
	}
	if resT == nil {
		unsupported("getter %s on opaque %s", name, recv.GoT)
	}
	return e.ufApply(st, "get_"+name, resT, append([]Val{recv}, args...))
}

// ufApply applies an uninterpreted function named after a Go method, with the result shaped by Go type.
func (e *Engine) ufApply(st *State, fname string, resT types.Type, args []Val) Val {
	var as []string
	var sorts []Sort
	for _, a := range args {
		t, ok := a.(*Term)
		if !ok {
			if iv, ok2 := a.(*IfaceV); ok2 && iv.Dyn != nil {
				if sv, ok3 := iv.V.(*StructV); ok3 {
					for _, f := range flattenStruct(sv) {
						as = append(as, f.T)
						sorts = append(sorts, f.S)
					}
					continue
				}
			}
			if sv, ok2 := a.(*StructV); ok2 {
				for _, f := range flattenStruct(sv) {
					as = append(as, f.T)
					sorts = append(sorts, f.S)
				}
				continue
			}
			unsupported("argument %s of uninterpreted %s", valString(a), fname)
		}
		as = append(as, t.T)
		sorts = append(sorts, t.S)
	}
	var rs Sort
	signed := false
	switch {
	case isErrorType(resT):
		rs = SErr
	case isByteSlice(resT):
		rs = SBytes
	default:
		switch u := resT.Underlying().(type) {
		case *types.Basic:
			switch {
			case u.Info()&types.IsBoolean != 0:
				rs = SBool
			case u.Info()&types.IsInteger != 0:
				w, sg := intInfo(u)
				rs = BV(w)
				signed = sg
			case u.Info()&types.IsString != 0:
				rs = SStr
			default:
				rs = "Obj"
			}
		default:
			rs = "Obj"
		}
	}
	name := "|" + fname + "_" + sanitize(string(rs)) + fmt.Sprintf("_%d|", len(as))
	e.C.DeclareFun(name, sorts, rs)
	var t string
	if len(as) == 0 {
		t = name
	} else {
		t = "(" + name + " " + strings.Join(as, " ") + ")"
	}
	return &Term{S: rs, T: t, Signed: signed, GoT: resT}
}

func flattenStruct(sv *StructV) []*Term {
	var out []*Term
	for _, f := range sv.F {
		switch x := f.(type) {
		case *Term:
			out = append(out, x)
		case *StructV:
			out = append(out, flattenStruct(x)...)
		}
	}
	return out
}

// pureCall evaluates a Go function on values inside a contract expression. All feasible return paths
// are merged with ite over their path conditions.
func (e *Engine) pureCall(env *Env, fn *ssa.Function, args []Val) Val {
	key := FuncKey(fn)
	if h, ok := externs[key]; ok {
		rs, forks := h(e, env.st, nil, args, fn, nil)
		if forks != nil {
			unsupported("forking extern %s in a contract expression", key)
		}
		return tupleOrSingle(rs)
	}
	if kf := e.W.KeyFns[strings.Replace(key, "::", ".", 1)]; kf != nil {
		return e.applyKeyFn(env.st, kf, fn, args)
	}
	if fn.Blocks == nil {
		unsupported("pure call of body-less %s", key)
	}
	sub := &State{heap: env.st.heap, ghost: map[string]*Term{}, ghostOld: env.old, nextCell: env.st.nextCell}
	g := env.st.ghost
	if env.inOld && env.old != nil {
		g = env.old
	}
	for k, v := range g {
		sub.ghost[k] = v
	}
	subHeap := make(map[int]Val, len(env.st.heap))
	for k, v := range env.st.heap {
		subHeap[k] = v
	}
	sub.heap = subHeap
	e.pushFrame(sub, fn, args, nil, nil)
	type res struct {
		cond string
		rs   []Val
	}
	var outs []res
	e.run(sub, 1, func(o *Outcome) {
		if o.Panicked {
			return
		}
		outs = append(outs, res{smtAnd(o.St.pc...), o.Results})
	})
	if len(outs) == 0 {
		unsupported("pure call of %s has no returning path", key)
	}
	merged := outs[len(outs)-1].rs
	for i := len(outs) - 2; i >= 0; i-- {
		var m []Val
		for j := range merged {
			m = append(m, e.mergeVals(outs[i].cond, outs[i].rs[j], merged[j]))
		}
		merged = m
	}
	return tupleOrSingle(merged)
}

func tupleOrSingle(rs []Val) Val {
	if len(rs) == 1 {
		return rs[0]
	}
	return TupleV(rs)
}

func (e *Engine) mergeVals(cond string, a, b Val) Val {
	switch x := a.(type) {
	case *Term:
		if y, ok := b.(*Term); ok && x.S == y.S {
			return &Term{S: x.S, T: smtIte(cond, x.T, y.T), Signed: x.Signed, GoT: x.GoT}
		}
	case *StructV:
		if y, ok := b.(*StructV); ok {
			n := &StructV{T: x.T}
			for i := range x.F {
				n.F = append(n.F, e.mergeVals(cond, x.F[i], y.F[i]))
			}
			return n
		}
	case *IfaceV:
		if y, ok := b.(*IfaceV); ok && x.Dyn != nil && y.Dyn != nil && types.Identical(x.Dyn, y.Dyn) {
			return &IfaceV{Dyn: x.Dyn, V: e.mergeVals(cond, x.V, y.V)}
		}
	}
	if valString(a) == valString(b) {
		return a
	}
	unsupported("cannot merge %s and %s", valString(a), valString(b))
	return nil
}

func (e *Engine) pureIfaceContract(env *Env, fc *FuncContract, recv *Term, args []Val, name string) Val {
	unsupported("pure interface contract %s in expression", name)
	return nil
}

// ------------------------------------------------------------------------------------------

func (e *Engine) coerceTo(env *Env, v Val, s Sort) *Term {
	switch x := v.(type) {
	case *Term:
		if x.S == s {
			return x
		}
		if x.S == "NumLit" {
			n, _ := strconv.ParseUint(x.T, 10, 64)
			if w := s.BVWidth(); w > 0 {
				return mkBV(w, bvLit(n, w), false)
			}
			if s == SInt {
				return mk(SInt, x.T)
			}
		}
		if x.S == SBytes && s == SStr {
			return mk(SStr, bstrOf(x.T))
		}
		if x.S == "Arr" && s == SStr {
			return mk(SStr, x.T)
		}
		if x.S == SStr && s == SBytes {
			return mk(SBytes, "(mkB false "+x.T+")")
		}
		if x.S == SBytes && s == SKey && x.Key != nil {
			return x.Key
		}
		if x.S == SStr && s == SKey && x.Key != nil {
			return x.Key
		}
		if x.S == SStr && s == SOpt {
			return mk(SOpt, "(some "+x.T+")")
		}
		if x.S == SBytes && s == SOpt {
			return mk(SOpt, "(some "+bstrOf(x.T)+")")
		}
	case *ArrayV:
		if s == SStr {
			if t, ok := e.arrayAsStr(env.st, x); ok {
				return mk(SStr, t.T)
			}
		}
	case *NilV:
		switch s {
		case SErr:
			return mk(SErr, "err_nil")
		case SBytes:
			return mk(SBytes, "(mkB true str_empty)")
		}
	case *PtrV:
		if x.Opaque != nil && x.Opaque.S == "Obj" && s == "Obj" {
			return x.Opaque
		}
	case *IfaceV:
		if x.Dyn != nil {
			if t, ok := x.V.(*Term); ok && t.S == s {
				return t
			}
			if p, ok := x.V.(*PtrV); ok && p.Opaque != nil && p.Opaque.S == "Obj" && s == "Obj" {
				return p.Opaque
			}
		}
	case *SliceV:
		if isByteElem(x.ElemT) {
			bt := e.toBytesTerm(env.st, x)
			if s == SBytes {
				return bt
			}
			return e.coerceTo(env, bt, s)
		}
		if s == "Obj" {
			return e.seqObjCached(env.st, x)
		}
	}
	unsupported("cannot use %s as %s", valString(v), s)
	return nil
}

func (e *Engine) coerce2(env *Env, a, b Val) (*Term, *Term) {
	at, aok := a.(*Term)
	bt, bok := b.(*Term)
	if aok && bok {
		if at.S == bt.S && at.S != "NumLit" {
			return at, bt
		}
		if at.S == "NumLit" && bt.S == "NumLit" {
			return e.coerceTo(env, at, BV(64)), e.coerceTo(env, bt, BV(64))
		}
		if at.S == "NumLit" {
			return e.coerceTo(env, at, bt.S), bt
		}
		if bt.S == "NumLit" {
			return at, e.coerceTo(env, bt, at.S)
		}
		if at.S == SBytes && bt.S == SStr {
			return e.coerceTo(env, at, SStr), bt
		}
		if at.S == SStr && bt.S == SBytes {
			return at, e.coerceTo(env, bt, SStr)
		}
		if at.S == SOpt && (bt.S == SStr || bt.S == SBytes) {
			return at, e.coerceTo(env, bt, SOpt)
		}
		if bt.S == SOpt && (at.S == SStr || at.S == SBytes) {
			return e.coerceTo(env, at, SOpt), bt
		}
	}
	if aok {
		if _, isNil := b.(*NilV); isNil {
			return at, e.coerceTo(env, b, at.S)
		}
		if sl, ok := b.(*SliceV); ok && at.S == SBytes {
			return at, e.toBytesTerm(env.st, sl)
		}
	}
	if bok {
		if _, isNil := a.(*NilV); isNil {
			return e.coerceTo(env, a, bt.S), bt
		}
		if sl, ok := a.(*SliceV); ok && bt.S == SBytes {
			return e.toBytesTerm(env.st, sl), bt
		}
	}
	unsupported("incompatible operands %s and %s", valString(a), valString(b))
	return nil, nil
}

func (e *Engine) evalBinop(env *Env, x *Expr) Val {
	op := x.Name
	switch op {
	case "&&", "||", "==>", "<==>":
		a := e.evalBool(env, x.Args[0])
		if op == "==>" {
			// A ==> B where B reads through a nil pointer on this path: the clause then demands that A is false here
			b, nilRead := e.evalBoolNilGuard(env, x.Args[1])
			if nilRead {
				return mkBool(smtNot(a))
			}
			return mkBool(smtImp(a, b))
		}
		b := e.evalBool(env, x.Args[1])
		switch op {
		case "&&":
			return mkBool(smtAnd(a, b))
		case "||":
			return mkBool(smtOr(a, b))
		case "==>":
			return mkBool(smtImp(a, b))
		default:
			return mkBool("(= " + a + " " + b + ")")
		}
	}
	a := e.evalExpr(env, x.Args[0])
	b := e.evalExpr(env, x.Args[1])
	if op == "==" || op == "!=" {
		var eq string
		_, aNil := a.(*NilV)
		_, bNil := b.(*NilV)
		_, aT := a.(*Term)
		_, bT := b.(*Term)
		switch {
		case aNil && bNil:
			eq = "true"
		case bNil && !aT:
			eq = e.isNilTerm(env.st, a)
		case aNil && !bT:
			eq = e.isNilTerm(env.st, b)
		case bNil && aT && (a.(*Term).S == "Obj"):
			eq = e.isNilTerm(env.st, a)
		case aNil && bT && (b.(*Term).S == "Obj"):
			eq = e.isNilTerm(env.st, b)
		case (aT || isSliceV(a)) && (bT || isSliceV(b)) || aNil || bNil:
			at, bt := e.coerce2(env, a, b)
			eq = smtEq(at.T, bt.T)
		default:
			eq = e.valEq(env.st, a, b)
		}
		if op == "!=" {
			return mkBool(smtNot(eq))
		}
		return mkBool(eq)
	}
	if an, ok := a.(*Term); ok && an.S == "NumLit" {
		if bn, ok := b.(*Term); ok && bn.S == "NumLit" {
			x, _ := strconv.ParseUint(an.T, 10, 64)
			y, _ := strconv.ParseUint(bn.T, 10, 64)
			fold := func(c bool) Val {
				if c {
					return tTrue
				}
				return tFalse
			}
			switch op {
			case "<", "<u":
				return fold(x < y)
			case "<=", "<=u":
				return fold(x <= y)
			case ">", ">u":
				return fold(x > y)
			case ">=", ">=u":
				return fold(x >= y)
			}
		}
	}
	at, bt := e.coerce2(env, a, b)
	if at.S == SStr && op == "++" {
		return e.strCat(env.st, at, bt)
	}
	if at.S == SInt {
		switch op {
		case "+", "-", "*":
			return mk(SInt, fmt.Sprintf("(%s %s %s)", op, at.T, bt.T))
		case "/":
			return mk(SInt, fmt.Sprintf("(div %s %s)", at.T, bt.T))
		case "%":
			return mk(SInt, fmt.Sprintf("(mod %s %s)", at.T, bt.T))
		case "<", "<=", ">", ">=":
			return mkBool(fmt.Sprintf("(%s %s %s)", op, at.T, bt.T))
		}
	}
	if w := at.S.BVWidth(); w > 0 {
		sg := at.Signed || bt.Signed
		bin := func(f string) Val { return &Term{S: at.S, T: fmt.Sprintf("(%s %s %s)", f, at.T, bt.T), Signed: sg} }
		cmp := func(u, s string, signed bool) Val {
			if signed {
				return mkBool(fmt.Sprintf("(%s %s %s)", s, at.T, bt.T))
			}
			return mkBool(fmt.Sprintf("(%s %s %s)", u, at.T, bt.T))
		}
		switch op {
		case "+":
			return bin("bvadd")
		case "-":
			return bin("bvsub")
		case "*":
			return bin("bvmul")
		case "/":
			if sg {
				return e.arithAbs(env.st, bin("bvsdiv"))
			}
			return e.arithAbs(env.st, bin("bvudiv"))
		case "%":
			if sg {
				return e.arithAbs(env.st, bin("bvsrem"))
			}
			return e.arithAbs(env.st, bin("bvurem"))
		case "<":
			return cmp("bvult", "bvslt", sg)
		case "<=":
			return cmp("bvule", "bvsle", sg)
		case ">":
			return cmp("bvugt", "bvsgt", sg)
		case ">=":
			return cmp("bvuge", "bvsge", sg)
		case "<u":
			return cmp("bvult", "", false)
		case "<=u":
			return cmp("bvule", "", false)
		case ">u":
			return cmp("bvugt", "", false)
		case ">=u":
			return cmp("bvuge", "", false)
		case "<s":
			return cmp("", "bvslt", true)
		case "<=s":
			return cmp("", "bvsle", true)
		case ">s":
			return cmp("", "bvsgt", true)
		case ">=s":
			return cmp("", "bvsge", true)
		}
	}
	unsupported("operator %s on %s, %s", op, at.S, bt.S)
	return nil
}

func isSliceV(v Val) bool { _, ok := v.(*SliceV); return ok }

// ------------------------------------------------------------------------------------------
// built-in spec functions and user specs

func (e *Engine) evalCall(env *Env, x *Expr) Val {
	var args []Val
	evalArgs := func() {
		for _, a := range x.Args {
			args = append(args, e.evalExpr(env, a))
		}
	}
	term := func(i int, s Sort) *Term { return e.coerceTo(env, args[i], s) }
	switch x.Name {
	case "present":
		evalArgs()
		return mkBool("((_ is some) " + term(0, SOpt).T + ")")
	case "val":
		evalArgs()
		return mk(SStr, "(val "+term(0, SOpt).T+")")
	case "some":
		evalArgs()
		return mk(SOpt, "(some "+term(0, SStr).T+")")
	case "len":
		evalArgs()
		switch a := args[0].(type) {
		case *Term:
			switch a.S {
			case SStr:
				return e.strLen(env.st, a.T)
			case SBytes:
				return e.strLen(env.st, bstrOf(a.T))
			case "Obj":
				return e.seqLen(env.st, a)
			}
		case *SliceV:
			if a.Nil {
				return mkBV(64, bvLit(0, 64), true)
			}
			return mkBV(64, bvLit(uint64(a.Hi-a.Lo), 64), true)
		case *MapV:
			return e.mapLen(env.st, a)
		}
		unsupported("len(%s)", valString(args[0]))
	case "str":
		evalArgs()
		t := term(0, SStr)
		return t
	case "bytes":
		evalArgs()
		return term(0, SBytes)
	case "isnil":
		evalArgs()
		return mkBool(e.isNilTerm(env.st, args[0]))
	case "u64":
		// decode an optional store value the way sdk.BigEndianToUint64(store.Get(k)) does
		evalArgs()
		o := term(0, SOpt).T
		return mkBV(64, fmt.Sprintf("(ite (or ((_ is none) %s) (= (slen (val %s)) #x0000000000000000)) #x0000000000000000 (unbe64 (val %s)))", o, o, o), false)
	case "contains", "hasprefix", "hassuffix":
		evalArgs()
		f := map[string]string{"contains": "str_contains", "hasprefix": "has_prefix", "hassuffix": "has_suffix"}[x.Name]
		e.C.DeclareFun(f, []Sort{SStr, SStr}, SBool)
		return mkBool(fmt.Sprintf("(%s %s %s)", f, term(0, SStr).T, term(1, SStr).T))
	case "split":
		evalArgs()
		e.C.DeclareFun("str_split", []Sort{SStr, SStr}, "Obj")
		return mk("Obj", fmt.Sprintf("(str_split %s %s)", term(0, SStr).T, term(1, SStr).T))
	case "jsondec":
		evalArgs()
		e.C.DeclareFun("json_dec", []Sort{SStr}, "Obj")
		return mk("Obj", "(json_dec "+term(0, SStr).T+")")
	case "jsonenc":
		evalArgs()
		e.C.DeclareFun("json_enc", []Sort{"Obj"}, SStr)
		return mk(SStr, "(json_enc "+term(0, "Obj").T+")")
	case "rematch":
		evalArgs()
		e.C.DeclareFun("re_match", []Sort{SStr, SStr}, SBool)
		return mkBool(fmt.Sprintf("(re_match %s %s)", term(0, SStr).T, term(1, SStr).T))
	case "seqlen":
		evalArgs()
		return e.seqLen(env.st, term(0, "Obj"))
	case "seqstr":
		evalArgs()
		e.C.DeclareFun("seq_str", []Sort{"Obj", BV(64)}, SStr)
		return mk(SStr, fmt.Sprintf("(seq_str %s %s)", term(0, "Obj").T, term(1, BV(64)).T))
	case "pbdec_obj", "pbdec_str":
		// pbdec_obj(T, i, bytes): field i of the message type named T decoded from bytes (A-PROTO)
		if len(x.Args) != 3 || x.Args[1].Op != "num" {
			unsupported("%s(TypeName, index, bytes)", x.Name)
		}
		pbT, err := e.W.LookupType(env.pkg, x.Args[0].String())
		if err != nil {
			unsupported("%v", err)
		}
		b := e.coerceTo(env, e.evalExpr(env, x.Args[2]), SStr)
		s := Sort("Obj")
		if x.Name == "pbdec_str" {
			s = SStr
		}
		d := fmt.Sprintf("pbdec_%s_%s", typeTag(pbT), x.Args[1].Name)
		e.C.DeclareFun(d, []Sort{SStr}, s)
		return &Term{S: s, T: fmt.Sprintf("(%s %s)", d, b.T)}
	case "fromhex", "hash32", "keccak", "rlpdec":
		evalArgs()
		f := map[string]string{"fromhex": "from_hex", "hash32": "hash32", "keccak": "keccak", "rlpdec": "rlp_dec_bytes"}[x.Name]
		e.C.DeclareFun(f, []Sort{SStr}, SStr)
		return mk(SStr, "("+f+" "+term(0, SStr).T+")")
	case "rlpok":
		evalArgs()
		e.C.DeclareFun("rlp_ok", []Sort{SStr}, SBool)
		return mkBool("(rlp_ok " + term(0, SStr).T + ")")
	case "intrie":
		evalArgs()
		e.C.DeclareFun("in_trie", []Sort{SStr, SStr, SStr}, SBool)
		return mkBool(fmt.Sprintf("(in_trie %s %s %s)", term(0, SStr).T, term(1, SStr).T, term(2, SStr).T))
	case "lpad":
		evalArgs()
		e.C.DeclareFun("lpad", []Sort{SStr, BV(64)}, SStr)
		return mk(SStr, fmt.Sprintf("(lpad %s %s)", term(0, SStr).T, term(1, BV(64)).T))
	case "bigbytes":
		evalArgs()
		e.C.DeclareFun("big_of", []Sort{BV(64)}, "Obj")
		e.C.DeclareFun("big_bytes", []Sort{"Obj"}, SStr)
		return mk(SStr, "(big_bytes (big_of "+term(0, BV(64)).T+"))")
	case "hashbig":
		evalArgs()
		e.C.DeclareFun("hash_big", []Sort{SStr}, "Obj")
		return mk("Obj", "(hash_big "+term(0, SStr).T+")")
	case "seqobj":
		evalArgs()
		e.C.DeclareFun("seq_obj", []Sort{"Obj", BV(64)}, "Obj")
		return mk("Obj", fmt.Sprintf("(seq_obj %s %s)", term(0, "Obj").T, term(1, BV(64)).T))
	case "rlpenc":
		// rlpenc(Type, field terms...): the uninterpreted RLP encoder of a struct type
		if len(x.Args) < 1 {
			unsupported("rlpenc(Type, fields...)")
		}
		rT, err := e.W.LookupType(env.pkg, x.Args[0].String())
		if err != nil {
			unsupported("%v", err)
		}
		var rs []Sort
		var ras []string
		for _, a := range x.Args[1:] {
			t, ok := e.evalExpr(env, a).(*Term)
			if !ok {
				unsupported("rlpenc argument %s", a)
			}
			rs = append(rs, t.S)
			ras = append(ras, t.T)
		}
		rn := "rlp_enc_" + typeTag(rT)
		e.C.DeclareFun(rn, rs, SStr)
		return mk(SStr, "("+rn+" "+strings.Join(ras, " ")+")")
	case "pbvalid":
		// pbvalid(T, bytes): bytes is a valid proto encoding of message type T (what Unmarshal's error decides)
		if len(x.Args) != 2 {
			unsupported("pbvalid(Type, bytes)")
		}
		pvT, err := e.W.LookupType(env.pkg, x.Args[0].String())
		if err != nil {
			unsupported("%v", err)
		}
		pvn := "pb_valid_" + typeTag(pvT)
		e.C.DeclareFun(pvn, []Sort{SStr}, SBool)
		return mkBool("(" + pvn + " " + e.coerceTo(env, e.evalExpr(env, x.Args[1]), SStr).T + ")")
	case "keyrepr":
		// the byte/string representation of a key (what the key builder returns)
		evalArgs()
		e.C.DeclareFun("repr", []Sort{SKey}, SStr)
		return mk(SStr, "(repr "+term(0, SKey).T+")")
	case "unixnano":
		evalArgs()
		e.C.DeclareFun("time_unixnano", []Sort{SInt}, BV(64))
		return mkBV(64, "(time_unixnano "+term(0, SInt).T+")", true)
	case "optstr":
		// string(store.Get(k)): "" when absent
		evalArgs()
		o := term(0, SOpt).T
		return mk(SStr, fmt.Sprintf("(ite ((_ is none) %s) str_empty (val %s))", o, o))
	case "k_raw":
		evalArgs()
		return mk(SKey, "(k_raw "+term(0, SStr).T+")")
	case "be64dec":
		evalArgs()
		return mkBV(64, "(unbe64 "+term(0, SStr).T+")", false)
	case "enc64":
		evalArgs()
		return mk(SStr, e.be64(env.st, term(0, BV(64)).T))
	case "sha256":
		evalArgs()
		return mk(SStr, e.sha(env.st, term(0, SStr).T))
	case "itoa":
		evalArgs()
		return mk(SStr, "(itoa "+term(0, BV(64)).T+")")
	case "wrapped":
		// wrapped(e): e is a (possibly nested) wrap of a sentinel... not needed: is_sentinel is enough
		evalArgs()
		return mkBool("(not (is_sentinel " + term(0, SErr).T + "))")
	case "umax":
		evalArgs()
		a, b := term(0, BV(64)), term(1, BV(64))
		return mkBV(64, fmt.Sprintf("(ite (bvugt %s %s) %s %s)", a.T, b.T, a.T, b.T), false)
	case "toint":
		// unsigned 64-bit vector to mathematical integer (explicit, used only in ints=math lemmas)
		evalArgs()
		return mk(SInt, "(bv2nat "+term(0, BV(64)).T+")")
	case "keyof":
		evalArgs()
		t := args[0].(*Term)
		if t.Key == nil {
			unsupported("keyof(%s): not a key-builder result", t.T)
		}
		return t.Key
	case "inv":
		// inv(NAME) expands a named module invariant in the current state
		if len(x.Args) != 1 || x.Args[0].Op != "ident" {
			unsupported("inv(NAME)")
		}
		cl := e.W.Invs[x.Args[0].Name]
		if cl == nil {
			unsupported("unknown invariant %q", x.Args[0].Name)
		}
		n := env.child()
		n.pkg = e.W.InvPkg[cl.Label]
		return mkBool(e.evalBool(n, cl.E))
	case "ev":
		// ev(type, k1, v1, k2, v2, ...) : an event term
		evalArgs()
		attrs := "anil"
		for i := len(args) - 2; i >= 1; i -= 2 {
			attrs = fmt.Sprintf("(acons %s %s %s)", term(i, SStr).T, term(i+1, SStr).T, attrs)
		}
		e.needEvents()
		return mk("Ev", fmt.Sprintf("(mk_ev %s %s)", term(0, SStr).T, attrs))
	case "ehd":
		evalArgs()
		return mk("Ev", "(ehd "+term(0, "EvLog").T+")")
	case "etl":
		evalArgs()
		return mk("EvLog", "(etl "+term(0, "EvLog").T+")")
	case "econs":
		evalArgs()
		e.needEvents()
		return mk("EvLog", fmt.Sprintf("(econs %s %s)", term(0, "Ev").T, term(1, "EvLog").T))
	}
	// key testers is_<ctor>(k) and accessors <ctor>_<i>(k)
	if strings.HasPrefix(x.Name, "is_") {
		if _, ok := e.C.KeyCtorByName(x.Name[3:]); ok {
			evalArgs()
			return mkBool(fmt.Sprintf("((_ is %s) %s)", x.Name[3:], term(0, SKey).T))
		}
	}
	if i := strings.LastIndex(x.Name, "_"); i > 0 {
		if kc, ok := e.C.KeyCtorByName(x.Name[:i]); ok {
			if n, err := strconv.Atoi(x.Name[i+1:]); err == nil && n < len(kc.Args) {
				evalArgs()
				return &Term{S: kc.Args[n], T: fmt.Sprintf("(%s %s)", x.Name, term(0, SKey).T)}
			}
		}
	}
	if x.Name == "as" || x.Name == "isa" {
		// as(x, T): the view of opaque x as message type T; isa(x, T): the uninterpreted type test
		if len(x.Args) != 2 {
			unsupported("%s(value, Type)", x.Name)
		}
		tn := x.Args[1].String()
		T, err := e.W.LookupType(env.pkg, strings.TrimPrefix(tn, "*"))
		if err != nil {
			unsupported("%v", err)
		}
		o := e.coerceTo(env, e.evalExpr(env, x.Args[0]), "Obj")
		if x.Name == "isa" {
			return mkBool(e.isaTerm(o, T))
		}
		return e.structView(env.st, o, T)
	}
	if x.Name == "bech32dec" || x.Name == "bech32" || x.Name == "validbech32" {
		evalArgs()
		e.C.DeclareFun("valid_bech32", []Sort{SStr}, SBool)
		e.C.DeclareFun("bech32_dec", []Sort{SStr}, SStr)
		e.C.DeclareFun("bech32_enc", []Sort{SStr}, SStr)
		switch x.Name {
		case "bech32dec":
			return mk(SStr, "(bech32_dec "+term(0, SStr).T+")")
		case "bech32":
			return mk(SStr, "(bech32_enc "+term(0, SStr).T+")")
		default:
			return mkBool("(valid_bech32 " + term(0, SStr).T + ")")
		}
	}
	if x.Name == "errAck" || x.Name == "resAck" {
		evalArgs()
		f := map[string]string{"errAck": "errAckBytes", "resAck": "resAckBytes"}[x.Name]
		e.C.DeclareFun(f, []Sort{SStr}, SStr)
		return mk(SStr, "("+f+" "+term(0, SStr).T+")")
	}
	if x.Name == "errtext" {
		evalArgs()
		e.C.DeclareFun("err_text", []Sort{SErr}, SStr)
		return mk(SStr, "(err_text "+term(0, SErr).T+")")
	}
	if x.Name == "isErrorAck" || x.Name == "isResultAck" {
		// the Response oneof of a packettypes.Acknowledgement value
		evalArgs()
		sv, ok := args[0].(*StructV)
		if !ok {
			unsupported("%s(%s)", x.Name, valString(args[0]))
		}
		want := map[string]string{"isErrorAck": "Acknowledgement_Error", "isResultAck": "Acknowledgement_Result"}[x.Name]
		switch r := sv.F[0].(type) {
		case *IfaceV:
			if r.Dyn != nil && strings.HasSuffix(r.Dyn.String(), want) {
				return tTrue
			}
			return tFalse
		case *Term:
			if r.S == "Obj" {
				T, err := e.W.LookupType("", repoModule+"/modules/tibc/core/04-packet/types."+want)
				if err != nil {
					unsupported("%v", err)
				}
				return mkBool(e.isaTerm(r, T))
			}
		}
		unsupported("%s on %s", x.Name, valString(sv.F[0]))
	}
	if x.Name == "dur" {
		evalArgs()
		e.C.DeclareFun("dur_int", []Sort{BV(64)}, SInt)
		return mk(SInt, "(dur_int "+term(0, BV(64)).T+")")
	}
	if x.Name == "unix" || x.Name == "nsec" {
		evalArgs()
		f := map[string]string{"unix": "time_unix", "nsec": "time_nsec"}[x.Name]
		e.C.DeclareFun(f, []Sort{SInt}, BV(64))
		return mkBV(64, "("+f+" "+term(0, SInt).T+")", true)
	}
	if v, ok := e.tmBuiltin(env, x); ok {
		return v
	}
	if v, ok := e.mapBuiltin(env, x); ok {
		return v
	}
	if x.Name == "inClient" {
		// inClient(k, c): k is a key below client c's prefix store (any declared client-store key family)
		evalArgs()
		k, c := term(0, SKey), term(1, SStr)
		var parts []string
		for _, ctor := range e.subCtors {
			parts = append(parts, fmt.Sprintf("(and ((_ is %s) %s) (= (%s_0 %s) %s))", ctor, k.T, ctor, k.T, c.T))
		}
		return mkBool(smtOr(parts...))
	}
	if x.Name == "clientOf" {
		evalArgs()
		if h, ok := args[0].(*StoreHandleV); ok && h.Prefix != nil {
			return h.Prefix
		}
		unsupported("clientOf(%s)", valString(args[0]))
	}
	if x.Name == "now" {
		return e.timeVal(env.st, "now_ns")
	}
	// key constructors
	if kc, ok := e.C.KeyCtorByName(x.Name); ok {
		evalArgs()
		if len(args) != len(kc.Args) {
			unsupported("key constructor %s takes %d arguments", x.Name, len(kc.Args))
		}
		var as []string
		for i := range args {
			as = append(as, term(i, kc.Args[i]).T)
		}
		if len(as) == 0 {
			return mk(SKey, x.Name)
		}
		return mk(SKey, "("+x.Name+" "+strings.Join(as, " ")+")")
	}
	if sp, ok := e.W.Specs[x.Name]; ok {
		evalArgs()
		return e.applySpec(env, sp, args)
	}
	// a function of the contract's own package
	if m := e.pkgMember(env, env.pkg, x.Name); m != nil {
		if fv, ok := m.(*FuncV); ok {
			evalArgs()
			return e.pureCall(env, fv.Fn, args)
		}
	}
	unsupported("unknown function %q in contract expression", x.Name)
	return nil
}

func (e *Engine) needEvents() {
	e.eventsUsed = true
}

// applySpec: uninterpreted spec functions become declare-fun; defined ones are expanded in place
// (so that they may mention ghost state through explicit parameters only).
func (e *Engine) applySpec(env *Env, sp *SpecFn, args []Val) Val {
	if len(args) != len(sp.Params) {
		unsupported("spec %s takes %d arguments, got %d", sp.Name, len(sp.Params), len(args))
	}
	rs := e.sortByName(sp.Res)
	if sp.Body == nil {
		var sorts []Sort
		var as []string
		for i, p := range sp.Params {
			s := e.sortByName(p.Sort)
			sorts = append(sorts, s)
			as = append(as, e.coerceTo(env, args[i], s).T)
		}
		e.C.DeclareFun(sp.Name, sorts, rs)
		e.usedSpecs[sp.Name] = true
		t := sp.Name
		if len(as) > 0 {
			t = "(" + sp.Name + " " + strings.Join(as, " ") + ")"
		}
		return &Term{S: rs, T: t, Signed: signedSortName(sp.Res)}
	}
	n := env.child()
	n.pkg = sp.Pkg
	for i, p := range sp.Params {
		s := e.sortByName(p.Sort)
		n.vars[p.Name] = e.coerceTo(env, args[i], s)
		n.vars[p.Name].(*Term).Signed = signedSortName(p.Sort)
	}
	v := e.evalExpr(n, sp.Body)
	t := e.coerceTo(env, v, rs)
	return &Term{S: rs, T: t.T, Signed: signedSortName(sp.Res), Key: t.Key}
}

// applyKeyFn: the result of a key-builder call: a byte string annotated with its Key term.
func (e *Engine) applyKeyFn(st *State, kf *KeyFn, fn *ssa.Function, args []Val) Val {
	env := e.newEnv(st, kf.Pkg)
	for i, p := range kf.Params {
		if i < len(args) {
			env.vars[p] = args[i]
		}
	}
	var as []*Term
	var sorts []Sort
	for i, a := range kf.Args {
		s := e.sortByName(kf.Sorts[i])
		sorts = append(sorts, s)
		as = append(as, e.coerceTo(env, e.evalExpr(env, a), s))
	}
	if kf.Sub {
		b := mk(SBytes, "")
		b.Sub = &SubKey{Ctor: kf.Ctor, Args: as}
		var parts []string
		for _, a := range as {
			parts = append(parts, a.T)
		}
		e.C.DeclareFun("subrepr_"+kf.Ctor, sorts, SStr)
		if len(parts) == 0 {
			b.T = "(mkB false subrepr_" + kf.Ctor + ")"
		} else {
			b.T = "(mkB false (subrepr_" + kf.Ctor + " " + strings.Join(parts, " ") + "))"
		}
		if kf.Ret == "str" {
			s := mk(SStr, bstrOf(b.T))
			s.Sub = b.Sub
			return s
		}
		return b
	}
	e.C.AddKeyCtor(kf.Ctor, sorts)
	var parts []string
	for _, a := range as {
		parts = append(parts, a.T)
	}
	kt := kf.Ctor
	if len(parts) > 0 {
		kt = "(" + kf.Ctor + " " + strings.Join(parts, " ") + ")"
	}
	e.C.DeclareFun("repr", []Sort{SKey}, SStr)
	if kf.Ret == "str" {
		s := mk(SStr, "(repr "+kt+")")
		s.Key = mk(SKey, kt)
		return s
	}
	b := mk(SBytes, "(mkB false (repr "+kt+"))")
	b.Key = mk(SKey, kt)
	return b
}
