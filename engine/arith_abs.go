package main

import "sync"

// Division and remainder terms are named: each distinct term gets one constant (the same in every state and in
// contract expressions, so that code and contract agree syntactically), defined by an equation assumed in the state
// that uses it. Quantifier instantiation and congruence then work on constants instead of 64-bit dividers; the
// divider itself is bit-blasted once, in the definition. Terms under a binder are left alone.
var (
	arithMu    sync.Mutex
	arithNames = map[string]string{}
)

func (e *Engine) arithAbs(st *State, v Val) Val {
	t, ok := v.(*Term)
	if !ok || st == nil || containsBound(t.T) {
		return v
	}
	arithMu.Lock()
	name, seen := arithNames[string(t.S)+"\x00"+t.T]
	if !seen {
		name = e.C.Fresh("ar", t.S)
		arithNames[string(t.S)+"\x00"+t.T] = name
	}
	arithMu.Unlock()
	st.assume("(= " + name + " " + t.T + ")")
	return &Term{S: t.S, T: name, Signed: t.Signed}
}

// splitSexprs splits a space-separated list of s-expressions (|quoted symbols| may contain spaces).
func splitSexprs(s string) []string {
	var out []string
	depth, start := 0, -1
	inBar := false
	for i := 0; i < len(s); i++ {
		c := s[i]
		if inBar {
			if c == '|' {
				inBar = false
			}
			continue
		}
		switch c {
		case '|':
			inBar = true
			if start < 0 {
				start = i
			}
		case '(':
			if start < 0 {
				start = i
			}
			depth++
		case ')':
			depth--
		case ' ':
			if depth == 0 && start >= 0 {
				out = append(out, s[start:i])
				start = -1
			}
		default:
			if start < 0 {
				start = i
			}
		}
	}
	if start >= 0 {
		out = append(out, s[start:])
	}
	return out
}

var (
	coverMu    sync.Mutex
	coverLocks = map[string]*sync.Mutex{}
)

// coverLock: one mutex per cover-obligation group (see Discharge).
func coverLock(name string) *sync.Mutex {
	coverMu.Lock()
	defer coverMu.Unlock()
	m := coverLocks[name]
	if m == nil {
		m = &sync.Mutex{}
		coverLocks[name] = m
	}
	return m
}

const coverTries = 5

var coverCount = map[string]int{}

// coverAttempt counts the attempts made for a cover group (called under the group's lock).
func coverAttempt(name string) int {
	coverMu.Lock()
	defer coverMu.Unlock()
	coverCount[name]++
	return coverCount[name]
}

// coverUndecided: the number of undecided attempts made so far for a cover group.
func coverUndecided(name string) int {
	coverMu.Lock()
	defer coverMu.Unlock()
	return coverCount[name]
}
