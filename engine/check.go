package main

// `tibcvc check <id>`: decide one property: run every function contract and lemma of the property's cone,
// discharge, compare with the known-findings file, write evidence, print VIOLATION / KNOWN-FINDING lines.

import (
	"encoding/json"
	"flag"
	"fmt"
	"os"
	"path/filepath"
	"sort"
	"strconv"
	"strings"
	"time"
)

type PropDef struct {
	ID         string
	Funcs      []string // contract targets (suffix-matched against canonical keys)
	Lemmas     []string
	StrLemmas  []string
	Bounded    []string // names of bounded checks (see bounded.go)
	Assume     []string // A-* identifiers used
	Inventory  []string // inventory checks (see inventory.go)
	Technique  string
	Level      string // evidence level (default "proof")
	Notes      []string
	TimeoutS   int // per-query solver timeout of the quick tier (default 10)
	NoCone     bool // `nocone`: do not verify the contracted callees of the listed functions as part of this check
}

func loadProp(id string) (*PropDef, error) {
	path := filepath.Join(verifDir, "props", id+".prop")
	data, err := os.ReadFile(path)
	if err != nil {
		return nil, err
	}
	p := &PropDef{ID: id}
	for n, l := range strings.Split(string(data), "\n") {
		l = strings.TrimSpace(l)
		if l == "" || strings.HasPrefix(l, "#") {
			continue
		}
		i := strings.IndexAny(l, " \t")
		if i < 0 {
			return nil, fmt.Errorf("%s:%d: bad line", path, n+1)
		}
		kw, rest := l[:i], strings.TrimSpace(l[i:])
		switch kw {
		case "func":
			p.Funcs = append(p.Funcs, rest)
		case "lemma":
			p.Lemmas = append(p.Lemmas, rest)
		case "strlemma":
			p.StrLemmas = append(p.StrLemmas, rest)
		case "bounded":
			p.Bounded = append(p.Bounded, rest)
		case "assume":
			p.Assume = append(p.Assume, rest)
		case "inventory":
			p.Inventory = append(p.Inventory, rest)
		case "level":
			p.Level = rest
		case "technique":
			p.Technique = rest
		case "note":
			p.Notes = append(p.Notes, rest)
		case "timeout":
			fmt.Sscanf(rest, "%d", &p.TimeoutS)
		case "nocone":
			p.NoCone = true
		default:
			return nil, fmt.Errorf("%s:%d: unknown keyword %q", path, n+1, kw)
		}
	}
	return p, nil
}

type KnownFinding struct {
	ID         string `json:"id"`
	Property   string `json:"property"`
	Obligation string `json:"obligation"`
	What       string `json:"what"`
	Where      string `json:"where,omitempty"`
}

type FixedFinding struct {
	ID       string `json:"id"`
	Property string `json:"property"`
	Commit   string `json:"commit"`
	What     string `json:"what"`
	Line     string `json:"line,omitempty"`
}

type KnownFile struct {
	Findings []KnownFinding `json:"findings"`
	Fixed    []FixedFinding `json:"fixed"`
}

func loadKnown() *KnownFile {
	kf := &KnownFile{}
	data, err := os.ReadFile(filepath.Join(verifDir, "known_findings.json"))
	if err != nil {
		return kf
	}
	if err := json.Unmarshal(data, kf); err != nil {
		fatalf("known_findings.json: %v", err)
	}
	return kf
}

var assumptionText = map[string]string{
	"A-SSA":     "go/packages + go/ssa translate the source faithfully; the executor's semantics of the SSA subset is Go's",
	"A-SMT":     "the SMT solvers are sound (unsat answers are cross-checked between solvers in the thorough tier)",
	"A-SDK":     "baseapp runs each tx on a branched store that is discarded iff the handler returns an error or panics",
	"A-GAS":     "gas metering is not modelled; out-of-gas panics only abort the transaction",
	"A-LC":      "light-client soundness: Verify* == nil implies the value is stored under that key on the counterparty at that height",
	"A-CRYPTO":  "sha256/keccak collision resistance; ics23, trie.VerifyProof, rlp, ecrecover, cometbft light.Verify meet their documented contracts",
	"A-ETHASH":  "the vendored ethash decides the PoW seal correctly and deterministically",
	"A-DEP":     "the irismod nft/mt keepers meet the contracts written from their sources (specs/irismod.spec)",
	"A-SEQ":     "sequence numbers and maxAck stay below 2^64-1 (requires clauses *.nowrap / *.seqbound)",
	"A-NOSELF":  "governance never creates a client named like the chain itself",
	"A-WIRE":    "keepers are wired as in core/keeper.NewKeeper: one store key shared by client, packet and routing keeper (wire declarations)",
	"A-ALIAS":   "distinct pointer parameters do not alias",
	"A-PROTO":   "gogoproto marshal/unmarshal of generated types are inverse and deterministic (csDecode, errAckBytes ...)",
	"A-GENESIS": "the genesis state satisfies the module invariants",
	"A-KEYS":    "the Key datatype abstraction: key builders are injective per family and families are disjoint on valid identifiers (obligation group KEYS where claimed)",
	"A-NONNIL":  "pointer parameters of handlers (msg) are non-nil; interface parameters have the dynamic type named by `dyn`",
	"A-GLOBALS": "package-level variables are not reassigned after init",
}

func cmdCheck(args []string) {
	fs := flag.NewFlagSet("check", flag.ExitOnError)
	tier := fs.String("tier", "quick", "quick|thorough")
	// accept flags after the property id as well
	var flags, pos []string
	for i := 0; i < len(args); i++ {
		a := args[i]
		if strings.HasPrefix(a, "-") {
			flags = append(flags, a)
			if !strings.Contains(a, "=") && i+1 < len(args) {
				flags = append(flags, args[i+1])
				i++
			}
		} else {
			pos = append(pos, a)
		}
	}
	fs.Parse(append(flags, pos...))
	if fs.NArg() != 1 {
		fatalf("usage: tibcvc check <id> [--tier quick|thorough]")
	}
	if t := os.Getenv("VERIF_TIER"); t == "quick" || t == "thorough" {
		*tier = t
	}
	// flags may also follow the id
	id := fs.Arg(0)
	seed := 0
	if s := os.Getenv("VERIF_SEED"); s != "" {
		seed, _ = strconv.Atoi(s)
	}
	// VERIF_NO_EVIDENCE=1 is used by the seeded-change runner so that evidence files always describe the unchanged tree
	os.Exit(runCheck(id, *tier, seed, nil, os.Getenv("VERIF_NO_EVIDENCE") == ""))
}

type CheckResult struct {
	Violations []string
	Known      []string
	Groups     []*Group
	Engine     *Engine
}

// runCheck returns the process exit code.
func runCheck(id, tier string, seed int, overlay map[string][]byte, writeEvidence bool) int {
	t0 := time.Now()
	prop, err := loadProp(id)
	if err != nil {
		fmt.Printf("check %s: %v\n", id, err)
		return 2
	}
	w, err := LoadWorld(repoDir(), loadPatterns, overlay, filepath.Join(verifDir, "specs"))
	if err != nil {
		// the tree does not load (does not compile): that is not a verdict about the property
		fmt.Printf("check %s: cannot load %s: %v\n", id, repoDir(), err)
		return 2
	}
	loadS := time.Since(t0).Seconds()
	e := NewEngine(w)
	e.TmpDir = newTmpDir()
	defer os.RemoveAll(e.TmpDir)
	e.TimeoutS = 10
	if prop.TimeoutS > 0 {
		e.TimeoutS = prop.TimeoutS
	}
	if tier == "thorough" {
		e.TimeoutS = 60
		e.Agree = true
	}
	var fucs []string
	for _, f := range prop.Funcs {
		key := resolveFuncArgQuiet(w, f)
		if key == "" {
			e.curFunc = f
			e.fail(f+"#contract.target", "property file names a function contract that does not exist: "+f)
			continue
		}
		fucs = append(fucs, shortKey(key))
		e.VerifyFunc(key)
	}
	for _, ln := range prop.Lemmas {
		l := w.Lemmas[ln]
		if l == nil {
			e.curFunc = "lemma." + ln
			e.fail("lemma."+ln+"#contract.target", "property file names a lemma that does not exist")
			continue
		}
		e.RunLemma(l)
	}
	for _, sl := range prop.StrLemmas {
		f := strLemmas[sl]
		if f == nil {
			e.curFunc = "strlemma." + sl
			e.fail("strlemma."+sl+"#contract.target", "property file names a string lemma that does not exist")
			continue
		}
		e.obls = append(e.obls, f(e)...)
	}
	// cone closure: the proofs above APPLY the contracts of their callees; a property's check is only self-contained if
	// those callees are verified here as well (transitively). A callee all of whose clauses are `trusts` has nothing to
	// verify and stays an assumption (listed under trusted_clauses).
	autoCone := map[string]bool{}
	// a function that the property file lists is part of the property's cone by declaration: its untagged clauses count
	// for this property whatever its own `props` line says (clause-level [Cxx] tags stay exclusive)
	for _, f := range prop.Funcs {
		if k := resolveFuncArgQuiet(w, f); k != "" {
			autoCone[shortKey(k)] = true
		}
	}
	if !prop.NoCone {
		listed := map[string]bool{}
		for _, f := range prop.Funcs {
			listed[resolveFuncArgQuiet(w, f)] = true
		}
		for changed := true; changed; {
			changed = false
			for _, k := range sortedKeys(e.contractCalls) {
				if listed[k] || strings.HasPrefix(k, "iface:") {
					continue
				}
				fc := w.Contract[k]
				if fc == nil || fc.IsExtern {
					continue
				}
				fn := w.LookupFunc(k)
				if fn == nil || fn.Blocks == nil {
					continue
				}
				checked := false
				for _, en := range fc.Ensures {
					if en.Known != "trusted" {
						checked = true
					}
				}
				if !checked {
					continue
				}
				listed[k] = true
				autoCone[shortKey(k)] = true
				fucs = append(fucs, shortKey(k))
				e.VerifyFunc(k)
				changed = true
			}
		}
	}
	// orphan contracts: a contract whose function no longer exists is an error of its own
	for _, k := range sortedKeys(w.Contract) {
		fc := w.Contract[k]
		if fc.IsExtern {
			if fn := w.LookupFunc(k); fn == nil {
				e.curFunc = shortKey(k)
				e.fail(shortKey(k)+"#contract.target", "extern contract without a function: "+k)
			}
		}
	}
	genS := time.Since(t0).Seconds() - loadS
	e.Discharge(16)
	var bounded []BoundedResult
	for _, b := range prop.Bounded {
		bounded = append(bounded, runBounded(b, tier, seed, overlay))
	}
	var inv []InventoryResult
	for _, n := range prop.Inventory {
		inv = append(inv, runInventory(w, n))
	}
	groups := e.Groups()
	known := loadKnown()
	knownByObl := map[string]KnownFinding{}
	for _, k := range known.Findings {
		if k.Property == id {
			knownByObl[k.Obligation] = k
		}
	}
	var violations []string
	var knownReported []string
	var failedKnown []string
	nObl, nDis := 0, 0
	perSolver := map[string]int{}
	solverSecs := 0.0
	maxSecs := 0.0
	replayDir := filepath.Join(verifDir, "replays", id)
	os.MkdirAll(replayDir, 0o755)
	var samples []any
	seenKnown := map[string]bool{}
	var foreign []string
	for _, g := range groups {
		for s, n := range g.Solvers {
			perSolver[s] += n
		}
		solverSecs += g.Secs
		if g.MaxSecs > maxSecs {
			maxSecs = g.MaxSecs
		}
		if g.Status == "discharged" {
			nObl++
			nDis++
			if len(samples) < 6 && g.Kind != "engine" && (len(samples) == 0 || g.Func != groups[0].Func || len(samples) < 3) {
				samples = append(samples, map[string]any{"obligation": g.Name, "kind": g.Kind, "clause": g.Desc, "path_queries": g.Queries, "solvers": g.Solvers})
			}
			continue
		}
		if len(g.Props) > 0 && !containsStr(g.Props, id) && !(autoCone[g.Func] && untaggedClause(w, g)) {
			// a clause owned by other properties (tagged [Cxx]) in a shared function: reported by their checks
			foreign = append(foreign, g.Name+" ("+strings.Join(g.Props, ",")+")")
			continue
		}
		if kf, ok := knownByObl[g.Name]; ok {
			seenKnown[g.Name] = true
			failedKnown = append(failedKnown, g.Name)
			knownReported = append(knownReported, fmt.Sprintf("KNOWN-FINDING: property=%s %s: %s [obligation %s]", id, kf.ID, kf.What, g.Name))
			continue
		}
		nObl++
		rp := filepath.Join(replayDir, sanitizeFile(g.Name)+".txt")
		suffix := writeReplay(e, rp, id, g)
		violations = append(violations, fmt.Sprintf("VIOLATION property=%s replay=%s obligation=%s status=%s%s", id, rp, g.Name, g.Status, suffix))
	}
	for _, b := range bounded {
		for _, v := range b.Violations {
			if kfID, what, ok := matchKnownBounded(known, id, v.Key); ok {
				knownReported = append(knownReported, fmt.Sprintf("KNOWN-FINDING: property=%s %s: %s [bounded check %s, case %s]", id, kfID, what, b.Name, v.Key))
				failedKnown = append(failedKnown, b.Name+":"+v.Key)
				continue
			}
			rp := filepath.Join(replayDir, sanitizeFile("bounded_"+b.Name+"_"+v.Key)+".txt")
			os.WriteFile(rp, []byte(v.Detail), 0o644)
			violations = append(violations, fmt.Sprintf("VIOLATION property=%s replay=%s bounded=%s case=%s", id, rp, b.Name, v.Key))
		}
	}
	for _, r := range inv {
		for _, v := range r.Violations {
			rp := filepath.Join(replayDir, sanitizeFile("inventory_"+r.Name)+".txt")
			os.WriteFile(rp, []byte(v), 0o644)
			violations = append(violations, fmt.Sprintf("VIOLATION property=%s replay=%s inventory=%s no-failing-input-found", id, rp, r.Name))
		}
		for _, v := range r.Keyed {
			okey := "inventory:" + r.Name + ":" + v.Key
			if kf, ok := knownByObl[okey]; ok {
				seenKnown[okey] = true
				failedKnown = append(failedKnown, okey)
				knownReported = append(knownReported, fmt.Sprintf("KNOWN-FINDING: property=%s %s: %s [%s]", id, kf.ID, kf.What, okey))
				continue
			}
			rp := filepath.Join(replayDir, sanitizeFile("inventory_"+r.Name+"_"+v.Key)+".txt")
			os.WriteFile(rp, []byte("obligation: "+okey+"\n\n"+v.Detail+"\n"), 0o644)
			violations = append(violations, fmt.Sprintf("VIOLATION property=%s replay=%s obligation=%s no-failing-input-found", id, rp, okey))
		}
		// each inventory counts as one obligation of the check (discharged when it reports nothing unlisted)
		nObl++
		if len(r.Violations) == 0 {
			bad := false
			for _, v := range r.Keyed {
				if _, ok := knownByObl["inventory:"+r.Name+":"+v.Key]; !ok {
					bad = true
				}
			}
			if !bad {
				nDis++
			}
		}
	}
	// a listed finding that no longer fails is stale: say so (not an alarm)
	for obl, kf := range knownByObl {
		if !seenKnown[obl] && !strings.HasPrefix(obl, "bounded:") {
			fmt.Printf("NOTE: known finding %s (%s) no longer fails; the entry in known_findings.json is stale\n", kf.ID, obl)
		}
	}
	for _, l := range knownReported {
		fmt.Println(l)
	}
	for _, l := range violations {
		fmt.Println(l)
	}
	wall := time.Since(t0).Seconds()
	if writeEvidence {
		ev := map[string]any{
			"property_id": id, "tier": tier, "seed": seed, "level": "proof", "wall_s": wall, "violations": len(violations),
		}
		if prop.Level != "" {
			ev["level"] = prop.Level
		}
		var trusted []string
		for _, a := range prop.Assume {
			trusted = append(trusted, a+": "+assumptionText[a])
		}
		base := []string{"A-SSA", "A-SMT", "A-NONNIL", "A-GLOBALS"}
		for _, a := range base {
			trusted = append(trusted, a+": "+assumptionText[a])
		}
		var externList []string
		for _, k := range sortedKeys(e.usedExterns) {
			externList = append(externList, k+" — "+externDoc[k])
		}
		var assumedContracts []string
		for _, k := range sortedKeys(e.contractCalls) {
			if fc := w.Contract[k]; fc != nil && fc.IsExtern {
				assumedContracts = append(assumedContracts, shortKey(k)+" (extern contract, body not verified)")
			}
			if strings.HasPrefix(k, "iface:") {
				assumedContracts = append(assumedContracts, k+" (interface-method contract)")
			}
		}
		// preconditions: checked at every call site that is under contract; for a function that no verified function of
		// this check calls they are assumptions about the callers outside the cone (representation invariants, input sanity)
		var entryPre []string
		for _, f := range prop.Funcs {
			key := resolveFuncArgQuiet(w, f)
			fc := w.Contract[key]
			if fc == nil {
				continue
			}
			how := "assumed at entry (no function verified in this check calls it)"
			if e.contractCalls[key] {
				how = "checked at its call sites in this check"
			}
			for _, rq := range fc.Requires {
				entryPre = append(entryPre, shortKey(key)+"#"+rq.Label+": "+rq.Src+" — "+how)
			}
		}
		var bnd []any
		for _, b := range bounded {
			bnd = append(bnd, map[string]any{"name": b.Name, "bound": b.Bound, "cases": b.Cases, "violations": len(b.Violations), "label": "bounded (never counted as proved)", "wall_s": b.WallS})
		}
		var invs []any
		for _, r := range inv {
			invs = append(invs, map[string]any{"name": r.Name, "items": r.Items, "violations": len(r.Violations) + len(r.Keyed)})
		}
		if len(samples) == 0 {
			for _, r := range inv {
				for i, it := range r.Items {
					if i < 4 {
						samples = append(samples, map[string]any{"inventory": r.Name, "item": it})
					}
				}
			}
		}
		if samples == nil {
			samples = []any{}
		}
		cov := map[string]any{
			"obligations": nObl, "discharged": nDis,
			"checker_cmd":               fmt.Sprintf("./bin/tibcvc check %s --tier %s", id, tier),
			"trusted_base":              trusted,
			"samples":                   samples,
			"functions_under_contract":  fucs,
			"lemmas":                    prop.Lemmas,
			"path_queries":              len(e.obls),
			"paths_per_function":        e.pathCount,
			"inlined_functions":         sortedKeys(e.inlined),
			"externs_assumed":           externList,
			"assumed_contracts":         assumedContracts,
			"trusted_clauses":           sortedKeys(e.trusted),
			"preconditions":             entryPre,
			"axioms":                    e.axiomsUsed,
			"noise_calls":               sortedKeys(e.noiseCalls),
			"havocked_calls":            sortedKeys(e.havocked),
			"bounded_loops":             sortedKeys(e.unrolled),
			"wiring":                    sortedKeys(e.usedWires),
			"solver_counts":             perSolver,
			"solver_time_s":             solverSecs,
			"max_query_s":               maxSecs,
			"load_s":                    loadS,
			"vcgen_s":                   genS,
			"bounded_checks":            bnd,
			"inventory_checks":          invs,
			"failed_known_findings":     failedKnown,
			"failing_obligations_owned_by_other_properties": foreign,
			"known_findings_reported":   len(knownReported),
			"integers":                  "Go integers are fixed-width bit-vectors with wrap-around (no mathematical-integer abstraction) unless a function is marked ints=math",
			"back_ends":                 "cvc5 1.0 leads; z3 5.1, z3 5.1 (MBQI only) and z3 4.8.12 are raced when it is undecided; thorough tier runs all and requires agreement",
			"technique":                 prop.Technique,
			"explanation":               prop.Technique + " " + strings.Join(prop.Notes, " "),
			"notes":                     prop.Notes,
		}
		ev["coverage"] = cov
		ev["assumptions"] = trusted
		os.MkdirAll(filepath.Join(verifDir, "evidence"), 0o755)
		data, _ := json.MarshalIndent(ev, "", " ")
		os.WriteFile(filepath.Join(verifDir, "evidence", id+".json"), data, 0o644)
	}
	fmt.Printf("check %s (%s): %d obligations, %d discharged, %d known findings, %d violations, %.1fs\n", id, tier, nObl, nDis, len(knownReported), len(violations), wall)
	if len(violations) > 0 {
		return 1
	}
	return 0
}

func containsStr(xs []string, x string) bool {
	for _, y := range xs {
		if y == x {
			return true
		}
	}
	return false
}

func resolveFuncArgQuiet(w *World, a string) string {
	if _, ok := w.Contract[a]; ok {
		return a
	}
	var hits []string
	for k := range w.Contract {
		if strings.HasSuffix(k, a) {
			hits = append(hits, k)
		}
	}
	sort.Strings(hits)
	if len(hits) == 1 {
		return hits[0]
	}
	return ""
}

func sanitizeFile(s string) string {
	var b strings.Builder
	for _, r := range s {
		switch {
		case r >= 'a' && r <= 'z', r >= 'A' && r <= 'Z', r >= '0' && r <= '9', r == '_', r == '.', r == '-', r == '#':
			b.WriteRune(r)
		default:
			b.WriteByte('_')
		}
	}
	return b.String()
}

func matchKnownBounded(k *KnownFile, prop, key string) (string, string, bool) {
	for _, f := range k.Findings {
		if f.Property == prop && f.Obligation == "bounded:"+key {
			return f.ID, f.What, true
		}
	}
	return "", "", false
}

// writeReplay writes the replay file of a failed obligation and, when the solver produced a model,
// tries to replay it against the real code. Returns the suffix for the VIOLATION line.
func writeReplay(e *Engine, path, id string, g *Group) string {
	var b strings.Builder
	fmt.Fprintf(&b, "property: %s\nobligation: %s\nkind: %s\nstatus: %s\nclause: %s\n", id, g.Name, g.Kind, g.Status, g.Desc)
	suffix := " no-failing-input-found"
	if g.Failing != nil {
		fmt.Fprintf(&b, "path: %s\nsolver: %s\n", g.Failing.Path, g.Failing.Solver)
		if len(g.Failing.Tainted) > 0 {
			fmt.Fprintf(&b, "unmodelled calls on this path (everything they may touch was havocked): %v\n", g.Failing.Tainted)
		}
		fmt.Fprintf(&b, "\n--- solver output / model ---\n%s\n", g.Failing.Model)
		if g.Failing.Status == "failed" && strings.Contains(g.Failing.Model, "sat") {
			if ok, out := tryReplay(e, g); ok {
				suffix = ""
				fmt.Fprintf(&b, "\n--- replay against the real code: FAILS as predicted ---\n%s\n", out)
			} else if out != "" {
				fmt.Fprintf(&b, "\n--- replay against the real code: not reproduced ---\n%s\n", out)
			}
		}
		fmt.Fprintf(&b, "\n--- hypotheses (path condition, callee contracts) ---\n")
		for _, h := range g.Failing.Hyps {
			b.WriteString(h + "\n")
		}
		fmt.Fprintf(&b, "\n--- goal ---\n%s\n", g.Failing.Goal)
	}
	os.WriteFile(path, []byte(b.String()), 0o644)
	return suffix
}
