package main

import (
	"fmt"
	"os"
	"sort"

	"golang.org/x/tools/go/ssa"
)

func dbgReach(w *World, reach map[*ssa.Function]bool, label string) {
	if os.Getenv("TIBCVC_DEBUG_REACH") == "" {
		return
	}
	var names []string
	for fn := range reach {
		names = append(names, shortKey(FuncKey(fn)))
	}
	sort.Strings(names)
	fmt.Println("REACH", label, len(names))
	for _, n := range names {
		fmt.Println("  ", n)
	}
}
