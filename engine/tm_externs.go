package main

// Assumed contracts for cometbft as used by the Tendermint light client (A-CRYPTO): conversions from proto are
// uninterpreted total-or-error functions, ValidatorSet.Hash is an uninterpreted function, and light.Verify is the
// relation LightVerify over exactly the values it is handed.

import (
	"fmt"
	"strings"

	"golang.org/x/tools/go/ssa"
)

func opaqueOf(v Val) *Term {
	switch x := v.(type) {
	case *PtrV:
		if x.Opaque != nil {
			return x.Opaque
		}
	case *Term:
		if x.S == "Obj" {
			return x
		}
	}
	return nil
}

// objOfPtr: an Obj term for a pointer to a transparent struct held in a cell: an uninterpreted function of its
// flattened fields (so that two equal structs denote the same object).
func (e *Engine) objOfStructPtr(st *State, v Val, tag string) string {
	if o := opaqueOf(v); o != nil {
		return o.T
	}
	p, ok := v.(*PtrV)
	if !ok || p.C == nil {
		if ok && p.Nil {
			e.C.DeclareFun("nil_obj", nil, "Obj")
			return "nil_obj"
		}
		unsupported("%s argument %s", tag, valString(v))
	}
	sv, ok := e.load(st, p, nil).(*StructV)
	if !ok {
		unsupported("%s argument is not a struct", tag)
	}
	var sorts []Sort
	var as []string
	var walk func(sv *StructV)
	walk = func(sv *StructV) {
		for _, f := range sv.F {
			switch x := f.(type) {
			case *Term:
				if x.S == "NumLit" || x.S == "Elem" || x.S == "Arr" || x.S == "Global" {
					continue
				}
				sorts = append(sorts, x.S)
				as = append(as, x.T)
			case *StructV:
				walk(x)
			case *PtrV:
				if x.Opaque != nil {
					sorts = append(sorts, "Obj")
					as = append(as, x.Opaque.T)
				} else if x.C != nil {
					if inner, ok := e.load(st, x, nil).(*StructV); ok {
						walk(inner)
					}
				}
			}
		}
	}
	walk(sv)
	name := "objof_" + tag
	e.C.DeclareFun(name, sorts, "Obj")
	if len(as) == 0 {
		return name
	}
	return "(" + name + " " + strings.Join(as, " ") + ")"
}

func init() {
	tm := "github.com/cometbft/cometbft/types"
	fromProto := func(uf string) externFn {
		return func(e *Engine, st *State, fr *Frame, a []Val, fn *ssa.Function, c *ssa.CallCommon) ([]Val, []*State) {
			in := e.objOfStructPtr(st, a[0], uf)
			e.C.DeclareFun(uf, []Sort{"Obj"}, "Obj")
			e.C.DeclareFun(uf+"_ok", []Sort{"Obj"}, SBool)
			er := mk(SErr, e.C.Fresh(uf+"_err", SErr))
			st.assume(fmt.Sprintf("(= (= %s err_nil) (%s_ok %s))", er.T, uf, in))
			return []Val{&PtrV{Opaque: mk("Obj", "("+uf+" "+in+")")}, er}, nil
		}
	}
	reg(tm+"::ValidatorSetFromProto", "(vals, err): err == nil <==> valset_ok(p); vals == valset_of(p) (uninterpreted)", fromProto("valset_of"))
	reg(tm+"::SignedHeaderFromProto", "(sh, err): err == nil <==> sheader_ok(p); sh == sheader_of(p) (uninterpreted)", fromProto("sheader_of"))
	reg(tm+"::(*ValidatorSet).Hash", "valset_hash(vals): the Merkle root of the validator set (uninterpreted, A-CRYPTO)", func(e *Engine, st *State, fr *Frame, a []Val, fn *ssa.Function, c *ssa.CallCommon) ([]Val, []*State) {
		e.C.DeclareFun("valset_hash", []Sort{"Obj"}, SStr)
		o := opaqueOf(a[0])
		if o == nil {
			unsupported("ValidatorSet.Hash on %s", valString(a[0]))
		}
		return []Val{mk(SBytes, "(mkB false (valset_hash "+o.T+"))")}, nil
	})
	reg("github.com/cometbft/cometbft/light::Verify", "err == nil <==> LightVerify(trusted.ChainID, trusted.Height, trusted.Time, trusted.NextValidatorsHash, trustedVals, untrustedHeader, untrustedVals, trustingPeriod, now, maxClockDrift, trustLevel.Numerator, trustLevel.Denominator): cometbft's light-client rule (over 1/3.. of the trusted set and over 2/3 of the new set signed, header time within trusting period and clock drift, heights increasing)",
		func(e *Engine, st *State, fr *Frame, a []Val, fn *ssa.Function, c *ssa.CallCommon) ([]Val, []*State) {
			// a[0] *SignedHeader{Header: &Header{...}}
			shp, ok := a[0].(*PtrV)
			if !ok || shp.C == nil {
				unsupported("light.Verify: trusted header %s", valString(a[0]))
			}
			sh := e.load(st, shp, nil).(*StructV)
			hp, ok := sh.F[0].(*PtrV)
			if !ok || hp.C == nil {
				unsupported("light.Verify: trusted header has no Header")
			}
			h := e.load(st, hp, nil).(*StructV)
			field := func(name string) *Term {
				v := e.fieldOf(st, h, name)
				t, ok := v.(*Term)
				if !ok {
					unsupported("light.Verify: trusted header field %s is %s", name, valString(v))
				}
				return t
			}
			tv, uh, uv := opaqueOf(a[1]), opaqueOf(a[2]), opaqueOf(a[3])
			if tv == nil || uh == nil || uv == nil {
				unsupported("light.Verify: opaque validator sets / header expected")
			}
			tl, ok := a[7].(*StructV)
			if !ok {
				unsupported("light.Verify: trust level %s", valString(a[7]))
			}
			sorts := []Sort{SStr, BV(64), SInt, SStr, "Obj", "Obj", "Obj", BV(64), SInt, BV(64), BV(64), BV(64)}
			e.C.DeclareFun("LightVerify", sorts, SBool)
			nvh := bstrOf(e.toBytesTerm(st, e.fieldOf(st, h, "NextValidatorsHash")).T)
			t := fmt.Sprintf("(LightVerify %s %s %s %s %s %s %s %s %s %s %s %s)", field("ChainID").T, field("Height").T, field("Time").T, nvh,
				tv.T, uh.T, uv.T, a[4].(*Term).T, a[5].(*Term).T, a[6].(*Term).T, tl.F[0].(*Term).T, tl.F[1].(*Term).T)
			er := mk(SErr, e.C.Fresh("lightverify_err", SErr))
			st.assume(fmt.Sprintf("(= (= %s err_nil) %s)", er.T, t))
			return []Val{er}, nil
		})
	ct := repoModule + "/modules/tibc/core/02-client/types"
	reg(ct+"::ParseChainID", "revOf(chainID): the revision number encoded in a chain id of the form {name}-{n}, 0 otherwise (uninterpreted)", func(e *Engine, st *State, fr *Frame, a []Val, fn *ssa.Function, c *ssa.CallCommon) ([]Val, []*State) {
		e.C.DeclareFun("rev_of", []Sort{SStr}, BV(64))
		return []Val{mkBV(64, "(rev_of "+a[0].(*Term).T+")", false)}, nil
	})
	reg(ct+"::IsRevisionFormat", "is_rev_format(chainID) (uninterpreted)", func(e *Engine, st *State, fr *Frame, a []Val, fn *ssa.Function, c *ssa.CallCommon) ([]Val, []*State) {
		e.C.DeclareFun("is_rev_format", []Sort{SStr}, SBool)
		return []Val{mkBool("(is_rev_format " + a[0].(*Term).T + ")")}, nil
	})
	reg(ct+"::SetRevisionNumber", "(set_rev(chainID, n), err) (uninterpreted)", func(e *Engine, st *State, fr *Frame, a []Val, fn *ssa.Function, c *ssa.CallCommon) ([]Val, []*State) {
		e.C.DeclareFun("set_rev", []Sort{SStr, BV(64)}, SStr)
		return []Val{mk(SStr, fmt.Sprintf("(set_rev %s %s)", a[0].(*Term).T, a[1].(*Term).T)), mk(SErr, e.C.Fresh("setrev_err", SErr))}, nil
	})
	reg(ct+"::GetSelfHeight", "the chain's own height (opaque)", func(e *Engine, st *State, fr *Frame, a []Val, fn *ssa.Function, c *ssa.CallCommon) ([]Val, []*State) {
		o := mk("Obj", e.C.Fresh("selfheight", "Obj"))
		return []Val{o}, nil
	})
	// iteration over the client's consensus-state index with a read-only callback: the variables the callback
	// captures become unknown; the store is not written (the callbacks in reach only read)
	t7 := repoModule + "/modules/tibc/light-clients/07-tendermint/types"
	reg(t7+"::IterateConsensusStateAscending", "calls cb(height) for stored heights in ascending order until it returns true; modelled as: every variable captured by cb is havocked, nothing else changes (cb must not write the store: checked by inventory for the callbacks in this package)",
		func(e *Engine, st *State, fr *Frame, a []Val, fn *ssa.Function, c *ssa.CallCommon) ([]Val, []*State) {
			cl, ok := a[1].(*ClosureV)
			if !ok {
				unsupported("IterateConsensusStateAscending with %s", valString(a[1]))
			}
			for i, b := range cl.Bind {
				p, ok := b.(*PtrV)
				if !ok || p.C == nil {
					continue
				}
				fv := cl.Fn.FreeVars[i]
				// only variables the callback assigns are havocked
				assigned := false
				for _, blk := range cl.Fn.Blocks {
					for _, in := range blk.Instrs {
						if s, ok := in.(*ssa.Store); ok && s.Addr == fv {
							assigned = true
						}
					}
				}
				if assigned {
					st.heap[p.C.ID] = e.havocCapture(st, fv)
				}
			}
			return nil, nil
		})
}
