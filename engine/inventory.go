package main

// Inventory checks: mechanical, whole-package scans whose result must match an expected list.

type InventoryResult struct {
	Name       string
	Items      []string
	Violations []string
}

type inventoryFn func(w *World) InventoryResult

var inventoryChecks = map[string]inventoryFn{}

func runInventory(w *World, name string) InventoryResult {
	f, ok := inventoryChecks[name]
	if !ok {
		return InventoryResult{Name: name, Violations: []string{"inventory check " + name + " is not implemented"}}
	}
	return f(w)
}
