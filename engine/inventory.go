package main

// Inventory checks: mechanical, whole-package scans whose result must match an expected list.

type InventoryResult struct {
	Name       string
	Items      []string
	Violations []string       // unkeyed violations
	Keyed      []InvViolation // violations identified by a stable key (can be listed as known findings: "inventory:<name>:<key>")
}

type inventoryFn func(w *World) InventoryResult

var inventoryChecks = map[string]inventoryFn{}

func runInventory(w *World, name string) InventoryResult {
	f, ok := inventoryChecks[name]
	if !ok {
		return InventoryResult{Name: name, Violations: []string{"inventory check " + name + " is not implemented"}}
	}
	return f(w)
}
