package main

// String-theory lemmas (SMT-LIB Strings / RegLan): small, staged, self-contained queries about the byte strings the
// code really builds. Regular expressions are transcribed MECHANICALLY from the Go constants in /repo (regexp/syntax).

import (
	"fmt"
	"go/constant"
	"regexp/syntax"
	"strings"

	"golang.org/x/tools/go/ssa"
)

type strLemmaFn func(e *Engine) []*Obligation

var strLemmas = map[string]strLemmaFn{}

// smtStrLit renders a Go string as an SMT-LIB string literal.
func smtStrLit(s string) string {
	var b strings.Builder
	b.WriteByte('"')
	for _, r := range s {
		switch {
		case r == '"':
			b.WriteString("\"\"")
		case r >= 32 && r < 127 && r != '\\':
			b.WriteRune(r)
		default:
			fmt.Fprintf(&b, "\\u{%x}", r)
		}
	}
	b.WriteByte('"')
	return b.String()
}

// regexToSMT transcribes a parsed Go regular expression into an SMT RegLan term. ok=false if a construct is not
// transcribable (then the lemma is reported as out of reach, never as proved). anchored tells whether the
// expression is wrapped in ^...$ (MatchString is unanchored otherwise).
func regexToSMT(re *syntax.Regexp) (string, bool) {
	switch re.Op {
	case syntax.OpEmptyMatch:
		return "(str.to_re \"\")", true
	case syntax.OpLiteral:
		return "(str.to_re " + smtStrLit(string(re.Rune)) + ")", true
	case syntax.OpCharClass:
		var parts []string
		for i := 0; i+1 < len(re.Rune); i += 2 {
			lo, hi := re.Rune[i], re.Rune[i+1]
			if lo == hi {
				parts = append(parts, "(str.to_re "+smtStrLit(string(lo))+")")
			} else {
				parts = append(parts, fmt.Sprintf("(re.range %s %s)", smtStrLit(string(lo)), smtStrLit(string(hi))))
			}
		}
		switch len(parts) {
		case 0:
			return "re.none", true
		case 1:
			return parts[0], true
		}
		return "(re.union " + strings.Join(parts, " ") + ")", true
	case syntax.OpAnyCharNotNL, syntax.OpAnyChar:
		if re.Op == syntax.OpAnyChar {
			return "re.allchar", true
		}
		return "(re.diff re.allchar (str.to_re \"\\u{a}\"))", true
	case syntax.OpCapture:
		return regexToSMT(re.Sub[0])
	case syntax.OpStar, syntax.OpPlus, syntax.OpQuest:
		s, ok := regexToSMT(re.Sub[0])
		if !ok {
			return "", false
		}
		op := map[syntax.Op]string{syntax.OpStar: "re.*", syntax.OpPlus: "re.+", syntax.OpQuest: "re.opt"}[re.Op]
		return "(" + op + " " + s + ")", true
	case syntax.OpRepeat:
		s, ok := regexToSMT(re.Sub[0])
		if !ok {
			return "", false
		}
		if re.Max < 0 {
			return fmt.Sprintf("(re.++ ((_ re.^ %d) %s) (re.* %s))", re.Min, s, s), true
		}
		return fmt.Sprintf("((_ re.loop %d %d) %s)", re.Min, re.Max, s), true
	case syntax.OpConcat, syntax.OpAlternate:
		var parts []string
		for _, sub := range re.Sub {
			if sub.Op == syntax.OpBeginText || sub.Op == syntax.OpEndText || sub.Op == syntax.OpBeginLine || sub.Op == syntax.OpEndLine {
				continue // anchors are handled by the caller (whole-string match)
			}
			s, ok := regexToSMT(sub)
			if !ok {
				return "", false
			}
			parts = append(parts, s)
		}
		op := "re.++"
		if re.Op == syntax.OpAlternate {
			op = "re.union"
		}
		switch len(parts) {
		case 0:
			return "(str.to_re \"\")", true
		case 1:
			return parts[0], true
		}
		return "(" + op + " " + strings.Join(parts, " ") + ")", true
	}
	return "", false
}

// anchoredBothEnds: the pattern is ^...$ at top level (so MatchString is a whole-string match).
func anchoredBothEnds(re *syntax.Regexp) bool {
	if re.Op != syntax.OpConcat || len(re.Sub) < 2 {
		return false
	}
	first, last := re.Sub[0], re.Sub[len(re.Sub)-1]
	return (first.Op == syntax.OpBeginText || first.Op == syntax.OpBeginLine) && (last.Op == syntax.OpEndText || last.Op == syntax.OpEndLine)
}

func (e *Engine) constString(pkgPath, name string) (string, bool) {
	for _, sp := range e.W.Prog.AllPackages() {
		if sp.Pkg.Path() != pkgPath {
			continue
		}
		if c, ok := sp.Members[name].(*ssa.NamedConst); ok && c.Value.Value != nil && c.Value.Value.Kind() == constant.String {
			return constant.StringVal(c.Value.Value), true
		}
	}
	return "", false
}

// regexpMustCompileArg finds the literal pattern of `var X = regexp.MustCompile(`...`).MatchString` in a package init.
func (e *Engine) regexpMustCompileArg(pkgPath, varName string) (string, bool) {
	for _, sp := range e.W.Prog.AllPackages() {
		if sp.Pkg.Path() != pkgPath {
			continue
		}
		initFn := sp.Func("init")
		g, _ := sp.Members[varName].(*ssa.Global)
		if initFn == nil || g == nil {
			return "", false
		}
		// walk back from the store to g: value is a bound method closure over the result of MustCompile(const)
		for _, b := range initFn.Blocks {
			for _, in := range b.Instrs {
				s, ok := in.(*ssa.Store)
				if !ok || s.Addr != g {
					continue
				}
				var found string
				var visit func(v ssa.Value, depth int)
				visit = func(v ssa.Value, depth int) {
					if depth > 6 || found != "" {
						return
					}
					switch x := v.(type) {
					case *ssa.MakeClosure:
						for _, bnd := range x.Bindings {
							visit(bnd, depth+1)
						}
					case *ssa.Call:
						if f, ok := x.Call.Value.(*ssa.Function); ok && f.Name() == "MustCompile" && len(x.Call.Args) == 1 {
							if c, ok := x.Call.Args[0].(*ssa.Const); ok && c.Value != nil {
								found = constant.StringVal(c.Value)
							}
						}
					case *ssa.ChangeType:
						visit(x.X, depth+1)
					case *ssa.MakeInterface:
						visit(x.X, depth+1)
					}
				}
				visit(s.Val, 0)
				if found != "" {
					return found, true
				}
			}
		}
	}
	return "", false
}

func rawObl(name, desc, query string, props []string) *Obligation {
	return &Obligation{Name: name, Kind: "strlemma", Desc: desc, RawQuery: query, Props: props, Func: name[:strings.Index(name, "#")]}
}

func failObl(name, msg string) *Obligation {
	return &Obligation{Name: name, Kind: "engine", Desc: msg, Status: "error", Model: msg, Func: name}
}

func init() {
	// C12.syntax: L(RulePattern) == { f1 "," f2 "," f3 | each fi a valid identifier of length 1..64 or "*" }.
	// Both sides come from the code's constants: RulePattern (26-routing/types) and the character class of
	// host.IsValidID (24-host); the grammar shape comes from the property statement. Also: host.IsValidRule uses
	// the same language.
	strLemmas["C12.syntax"] = func(e *Engine) []*Obligation {
		const name = "strlemma.C12.syntax"
		rp, ok := e.constString(repoModule+"/modules/tibc/core/26-routing/types", "RulePattern")
		if !ok {
			return []*Obligation{failObl(name+"#target", "constant RulePattern not found in 26-routing/types")}
		}
		idp, ok := e.regexpMustCompileArg(repoModule+"/modules/tibc/core/24-host", "IsValidID")
		if !ok {
			return []*Obligation{failObl(name+"#target", "pattern of host.IsValidID not found")}
		}
		rulep2, ok2 := e.regexpMustCompileArg(repoModule+"/modules/tibc/core/24-host", "IsValidRule")
		reRule, err := syntax.Parse(rp, syntax.Perl)
		if err != nil {
			return []*Obligation{failObl(name+"#target", "RulePattern does not parse: "+err.Error())}
		}
		reID, err := syntax.Parse(idp, syntax.Perl)
		if err != nil {
			return []*Obligation{failObl(name+"#target", "IsValidID pattern does not parse: "+err.Error())}
		}
		var out []*Obligation
		if !anchoredBothEnds(reRule) {
			out = append(out, failObl(name+"#anchored", "RulePattern is not anchored at both ends: MatchString would accept any string containing a rule"))
			return out
		}
		rule, ok := regexToSMT(reRule)
		if !ok {
			return []*Obligation{failObl(name+"#target", "RulePattern uses a construct outside the transcribable subset")}
		}
		// identifier character class: the body of ^[...]+$
		var idClass string
		if anchoredBothEnds(reID) && len(reID.Sub) == 3 && reID.Sub[1].Op == syntax.OpPlus {
			idClass, ok = regexToSMT(reID.Sub[1].Sub[0])
		} else {
			ok = false
		}
		if !ok {
			return []*Obligation{failObl(name+"#target", "IsValidID is not of the form ^[class]+$")}
		}
		field := fmt.Sprintf("(re.union ((_ re.loop 1 64) %s) (str.to_re \"*\"))", idClass)
		grammar := fmt.Sprintf("(re.++ %s (str.to_re \",\") %s (str.to_re \",\") %s)", field, field, field)
		q := func(a, b string) string {
			return "(set-logic ALL)\n(declare-const x String)\n(assert (not (= (str.in_re x " + a + ") (str.in_re x " + b + "))))\n"
		}
		out = append(out, rawObl(name+"#rulepattern_is_three_fields", "L(RulePattern) == field \",\" field \",\" field with field = idchar{1,64} | \"*\" (idchar from host.IsValidID); pattern: "+rp, q(rule, grammar), []string{"C12"}))
		if ok2 {
			if re2, err := syntax.Parse(rulep2, syntax.Perl); err == nil && anchoredBothEnds(re2) {
				if r2, ok := regexToSMT(re2); ok {
					out = append(out, rawObl(name+"#genesis_validator_same_language", "host.IsValidRule accepts the same language as RulePattern", q(rule, r2), []string{"C12"}))
				}
			}
		}
		// a valid rule has exactly two commas, none inside a field, and no field is empty: the split is unambiguous
		out = append(out, rawObl(name+"#fields_have_no_comma", "no field of a valid rule contains a comma or is empty",
			"(set-logic ALL)\n(declare-const x String)\n(assert (str.in_re x "+field+"))\n(assert (or (str.contains x \",\") (= x \"\")))\n", []string{"C12"}))
		return out
	}
}
