package main

// Assumed contracts for the go-ethereum helpers used by the BSC / ETH light clients (A-CRYPTO): hashing, hex and RLP
// codecs are uninterpreted functions; trie.VerifyProof is abstracted by the membership relation it establishes.

import (
	"fmt"
	"strings"

	"golang.org/x/tools/go/ssa"
)

const gethCommon = "github.com/ethereum/go-ethereum/common"

func (e *Engine) bytesArgs(st *State, v Val) []string {
	// a variadic ...[]byte argument: concrete slice of byte-slice values
	sl, ok := v.(*SliceV)
	if !ok {
		unsupported("variadic byte-slice argument %s", valString(v))
	}
	var out []string
	if sl.Nil {
		return out
	}
	arr := e.load(st, sl.Base, nil).(*ArrayV)
	for i := sl.Lo; i < sl.Hi; i++ {
		out = append(out, bstrOf(e.toBytesTerm(st, arr.E[i]).T))
	}
	return out
}

func (e *Engine) catAll(st *State, parts []string) string {
	if len(parts) == 0 {
		return "str_empty"
	}
	cur := mk(SStr, parts[0])
	for _, p := range parts[1:] {
		cur = e.strCat(st, cur, mk(SStr, p))
	}
	return cur.T
}

func init() {
	hashArr := func(t string) *Term { return &Term{S: "Arr", T: t} }
	reg(gethCommon+"::FromHex", "from_hex(s): the bytes a hex string (with optional 0x) denotes (uninterpreted, non-nil)", func(e *Engine, st *State, fr *Frame, a []Val, fn *ssa.Function, c *ssa.CallCommon) ([]Val, []*State) {
		e.C.DeclareFun("from_hex", []Sort{SStr}, SStr)
		return []Val{mk(SBytes, "(mkB false (from_hex "+a[0].(*Term).T+"))")}, nil
	})
	reg(gethCommon+"::HexToHash", "hash32(from_hex(s)): the 32-byte word (left-padded / cropped)", func(e *Engine, st *State, fr *Frame, a []Val, fn *ssa.Function, c *ssa.CallCommon) ([]Val, []*State) {
		e.C.DeclareFun("from_hex", []Sort{SStr}, SStr)
		e.C.DeclareFun("hash32", []Sort{SStr}, SStr)
		t := "(hash32 (from_hex " + a[0].(*Term).T + "))"
		st.assume("(= (slen " + t + ") #x0000000000000020)")
		return []Val{hashArr(t)}, nil
	})
	reg(gethCommon+"::BytesToHash", "hash32(b)", func(e *Engine, st *State, fr *Frame, a []Val, fn *ssa.Function, c *ssa.CallCommon) ([]Val, []*State) {
		e.C.DeclareFun("hash32", []Sort{SStr}, SStr)
		t := "(hash32 " + bstrOf(e.toBytesTerm(st, a[0]).T) + ")"
		st.assume("(= (slen " + t + ") #x0000000000000020)")
		return []Val{hashArr(t)}, nil
	})
	reg(gethCommon+"::(Hash).Bytes", "the 32 bytes of the hash", func(e *Engine, st *State, fr *Frame, a []Val, fn *ssa.Function, c *ssa.CallCommon) ([]Val, []*State) {
		t, ok := a[0].(*Term)
		if !ok || t.S != "Arr" {
			unsupported("Hash.Bytes on %s", valString(a[0]))
		}
		return []Val{mk(SBytes, "(mkB false "+t.T+")")}, nil
	})
	reg(gethCommon+"::(Hash).Big", "hash_big(h): the word as an integer (uninterpreted)", func(e *Engine, st *State, fr *Frame, a []Val, fn *ssa.Function, c *ssa.CallCommon) ([]Val, []*State) {
		e.C.DeclareFun("hash_big", []Sort{SStr}, "Obj")
		t := a[0].(*Term)
		o := mk("Obj", "(hash_big "+t.T+")")
		return []Val{&PtrV{Opaque: o}}, nil
	})
	reg(gethCommon+"::LeftPadBytes", "lpad(b, n): b left-padded with zero bytes to length n (b itself if it is longer); len == max(len b, n)", func(e *Engine, st *State, fr *Frame, a []Val, fn *ssa.Function, c *ssa.CallCommon) ([]Val, []*State) {
		e.C.DeclareFun("lpad", []Sort{SStr, BV(64)}, SStr)
		b := bstrOf(e.toBytesTerm(st, a[0]).T)
		n := a[1].(*Term).T
		t := fmt.Sprintf("(lpad %s %s)", b, n)
		if !strings.Contains(t, "|q_") {
			st.assume(fmt.Sprintf("(= (slen %s) (ite (bvsge (slen %s) %s) (slen %s) %s))", t, b, n, b, n))
			st.assume(fmt.Sprintf("(=> (bvsge (slen %s) %s) (= %s %s))", b, n, t, b))
		}
		return []Val{mk(SBytes, "(mkB false "+t+")")}, nil
	})
	crypto := "github.com/ethereum/go-ethereum/crypto"
	reg(crypto+"::Keccak256", "keccak(concat(data...)) (uninterpreted, 32 bytes)", func(e *Engine, st *State, fr *Frame, a []Val, fn *ssa.Function, c *ssa.CallCommon) ([]Val, []*State) {
		e.C.DeclareFun("keccak", []Sort{SStr}, SStr)
		t := "(keccak " + e.catAll(st, e.bytesArgs(st, a[0])) + ")"
		st.assume("(= (slen " + t + ") #x0000000000000020)")
		return []Val{mk(SBytes, "(mkB false "+t+")")}, nil
	})
	reg(crypto+"::Keccak256Hash", "keccak(concat(data...)) as a Hash", func(e *Engine, st *State, fr *Frame, a []Val, fn *ssa.Function, c *ssa.CallCommon) ([]Val, []*State) {
		e.C.DeclareFun("keccak", []Sort{SStr}, SStr)
		t := "(keccak " + e.catAll(st, e.bytesArgs(st, a[0])) + ")"
		st.assume("(= (slen " + t + ") #x0000000000000020)")
		return []Val{hashArr(t)}, nil
	})
	reg("math/big::NewInt", "the integer x (opaque)", func(e *Engine, st *State, fr *Frame, a []Val, fn *ssa.Function, c *ssa.CallCommon) ([]Val, []*State) {
		e.C.DeclareFun("big_of", []Sort{BV(64)}, "Obj")
		e.C.DeclareFun("obj_nil", []Sort{"Obj"}, SBool)
		if !containsBound(a[0].(*Term).T) {
			st.assume("(not (obj_nil (big_of " + a[0].(*Term).T + ")))")
		}
		return []Val{&PtrV{Opaque: mk("Obj", "(big_of "+a[0].(*Term).T+")")}}, nil
	})
	reg("math/big::(*Int).Bytes", "big-endian bytes of |x| (uninterpreted)", func(e *Engine, st *State, fr *Frame, a []Val, fn *ssa.Function, c *ssa.CallCommon) ([]Val, []*State) {
		e.C.DeclareFun("big_bytes", []Sort{"Obj"}, SStr)
		p, ok := a[0].(*PtrV)
		if !ok || p.Opaque == nil {
			unsupported("big.Int.Bytes on %s", valString(a[0]))
		}
		return []Val{mk(SBytes, "(mkB false (big_bytes "+p.Opaque.T+"))")}, nil
	})
	// light.NodeList: the proof database handed to trie.VerifyProof; its content is abstracted away (see VerifyProof)
	lt := "github.com/ethereum/go-ethereum/light"
	reg(lt+"::(*NodeList).Put", "adds a node to the list (not modelled: the list only feeds VerifyProof, which is abstracted by the relation it establishes)", func(e *Engine, st *State, fr *Frame, a []Val, fn *ssa.Function, c *ssa.CallCommon) ([]Val, []*State) {
		return []Val{mk(SErr, "err_nil")}, nil
	})
	reg(lt+"::(NodeList).NodeSet", "the node set of the list (opaque)", func(e *Engine, st *State, fr *Frame, a []Val, fn *ssa.Function, c *ssa.CallCommon) ([]Val, []*State) {
		return []Val{&PtrV{Opaque: mk("Obj", e.C.Fresh("nodeset", "Obj"))}}, nil
	})
	reg("github.com/ethereum/go-ethereum/trie::VerifyProof", "(val, err): err == nil ==> in_trie(root, key, val): the proof establishes that the trie with this root maps key to val (A-CRYPTO); completeness for honest proofs is not modelled",
		func(e *Engine, st *State, fr *Frame, a []Val, fn *ssa.Function, c *ssa.CallCommon) ([]Val, []*State) {
			e.C.DeclareFun("in_trie", []Sort{SStr, SStr, SStr}, SBool)
			root, ok := a[0].(*Term)
			if !ok || root.S != "Arr" {
				unsupported("trie.VerifyProof root %s", valString(a[0]))
			}
			key := bstrOf(e.toBytesTerm(st, a[1]).T)
			val := mk(SBytes, e.C.Fresh("trieval", SBytes))
			er := mk(SErr, e.C.Fresh("trie_err", SErr))
			st.assume(fmt.Sprintf("(=> (= %s err_nil) (in_trie %s %s %s))", er.T, root.T, key, bstrOf(val.T)))
			st.assume(fmt.Sprintf("(=> (bnil %s) (= (bstr %s) str_empty))", val.T, val.T))
			return []Val{val, er}, nil
		})
	rlp := "github.com/ethereum/go-ethereum/rlp"
	reg(rlp+"::EncodeToBytes", "rlp_enc_<T>(fields...) (uninterpreted; injective per type is not needed here); err unconstrained", func(e *Engine, st *State, fr *Frame, a []Val, fn *ssa.Function, c *ssa.CallCommon) ([]Val, []*State) {
		v := a[0]
		if iv, ok := v.(*IfaceV); ok && iv.Dyn != nil {
			v = iv.V
		}
		var sv *StructV
		if p, ok := v.(*PtrV); ok && p.C != nil {
			sv, _ = e.load(st, p, nil).(*StructV)
		} else if s, ok := v.(*StructV); ok {
			sv = s
		}
		if sv == nil {
			return []Val{mk(SBytes, e.C.Fresh("rlp", SBytes)), mk(SErr, e.C.Fresh("rlp_err", SErr))}, nil
		}
		var sorts []Sort
		var as []string
		for _, f := range sv.F {
			switch x := f.(type) {
			case *Term:
				s := x.S
				if s == "Arr" {
					s = SStr
				}
				sorts = append(sorts, s)
				as = append(as, x.T)
			case *PtrV:
				if x.Opaque != nil {
					sorts = append(sorts, "Obj")
					as = append(as, x.Opaque.T)
				}
			}
		}
		name := "rlp_enc_" + typeTag(sv.T)
		e.C.DeclareFun(name, sorts, SStr)
		t := "(" + name + " " + strings.Join(as, " ") + ")"
		return []Val{mk(SBytes, "(mkB false "+t+")"), mk(SErr, e.C.Fresh("rlp_err", SErr))}, nil
	})
	reg(rlp+"::DecodeBytes", "*ptr == rlp_dec_bytes(b) for a []byte target; err == nil <==> rlp_ok(b)", func(e *Engine, st *State, fr *Frame, a []Val, fn *ssa.Function, c *ssa.CallCommon) ([]Val, []*State) {
		e.C.DeclareFun("rlp_dec_bytes", []Sort{SStr}, SStr)
		e.C.DeclareFun("rlp_ok", []Sort{SStr}, SBool)
		b := bstrOf(e.toBytesTerm(st, a[0]).T)
		target := a[1]
		if iv, ok := target.(*IfaceV); ok && iv.Dyn != nil {
			target = iv.V
		}
		if p, ok := target.(*PtrV); ok && p.C != nil {
			e.store(st, p, mk(SBytes, "(mkB false (rlp_dec_bytes "+b+"))"))
		}
		er := mk(SErr, e.C.Fresh("rlpdec_err", SErr))
		st.assume(fmt.Sprintf("(= (= %s err_nil) (rlp_ok %s))", er.T, b))
		return []Val{er}, nil
	})
}
