package main

// Bounded checks nft.classpath.algebra / mt.classpath.algebra: the algebraic laws of the class-path helpers, which the
// transfer contracts abstract by uninterpreted functions (Away, Back, IsAway, tracePath ...), checked on the REAL helper
// bodies over a bounded, stated input space. Labelled bounded; never counted as proved.

import (
	"encoding/json"
	"fmt"
	"os"
	"os/exec"
	"path/filepath"
	"strings"
	"time"
)

func init() {
	boundedChecks["nft.classpath.algebra"] = func(tier string, seed int, overlay map[string][]byte) BoundedResult {
		return boundedAlgebra("nft.classpath.algebra", "nft_transfer", tier, overlay)
	}
	boundedChecks["mt.classpath.algebra"] = func(tier string, seed int, overlay map[string][]byte) BoundedResult {
		return boundedAlgebra("mt.classpath.algebra", "mt_transfer", tier, overlay)
	}
}

func boundedAlgebra(name, app, tier string, overlay map[string][]byte) BoundedResult {
	t0 := time.Now()
	hops := 3
	if tier == "thorough" {
		hops = 5
	}
	res := BoundedResult{Name: name, Bound: fmt.Sprintf("every route of at most %d hops over the chain names {A, B, C, <path prefix>, tibc-x} from the native base classes {class, <path prefix>, <path prefix>A, x, a-b, A} (native classes contain no '/'), real helper bodies of %s/keeper and %s/types; laws L1-L6 of bounded/classpath_algebra_test.go.txt", hops, app, app)}
	fail := func(key, detail string) BoundedResult {
		res.Violations = append(res.Violations, BoundedViolation{Key: key, Detail: detail})
		res.WallS = time.Since(t0).Seconds()
		return res
	}
	dir, err := os.MkdirTemp(filepath.Join(verifDir, ".tmp"), "algebra")
	if err != nil {
		return fail("harness", err.Error())
	}
	defer os.RemoveAll(dir)
	repo := repoDir()
	replace := map[string]string{}
	for p, data := range overlay {
		f := filepath.Join(dir, "ov_"+sanitize(p)+".go")
		if err := os.WriteFile(f, data, 0o644); err != nil {
			return fail("harness", err.Error())
		}
		replace[p] = f
	}
	testSrc, err := os.ReadFile(filepath.Join(verifDir, "bounded", "classpath_algebra_test.go.txt"))
	if err != nil {
		return fail("harness", err.Error())
	}
	pkgRel := "modules/tibc/apps/" + app + "/keeper"
	tp := filepath.Join(dir, "zz_algebra_test.go")
	os.WriteFile(tp, []byte(strings.ReplaceAll(string(testSrc), "APPPKG", app)), 0o644)
	replace[filepath.Join(repo, pkgRel, "zz_algebra_bounded_test.go")] = tp
	ov, _ := json.Marshal(map[string]any{"Replace": replace})
	ovp := filepath.Join(dir, "ov.json")
	os.WriteFile(ovp, ov, 0o644)
	cmd := exec.Command("go", "test", "-overlay", ovp, "-vet=off", "-count=1", "-v", "-timeout", "600s", "-run", "TestZZClassPathAlgebra", "./"+pkgRel+"/")
	cmd.Dir = repo
	cmd.Env = append(os.Environ(), "GOFLAGS=-mod=mod", "GOPROXY=off", "GOSUMDB=off", "GOTOOLCHAIN=local", fmt.Sprintf("ZZ_HOPS=%d", hops))
	out, runErr := cmd.CombinedOutput()
	text := string(out)
	seen := false
	for _, l := range strings.Split(text, "\n") {
		switch {
		case strings.HasPrefix(l, "ALGCASES "):
			fmt.Sscanf(l, "ALGCASES %d", &res.Cases)
			seen = true
		case strings.HasPrefix(l, "ALGVIOL "):
			rest := strings.TrimPrefix(l, "ALGVIOL ")
			key := strings.SplitN(rest, " ", 2)[0]
			res.Violations = append(res.Violations, BoundedViolation{Key: key, Detail: "bounded check " + name + ": law and first failing instance (real helper bodies):\n  " + rest + "\n\nlaws: see bounded/classpath_algebra_test.go.txt\n"})
		}
	}
	if !seen {
		tail := text
		if len(tail) > 3000 {
			tail = tail[len(tail)-3000:]
		}
		return fail("harness", fmt.Sprintf("the bounded test did not run to completion (%v):\n%s", runErr, tail))
	}
	res.WallS = time.Since(t0).Seconds()
	return res
}
