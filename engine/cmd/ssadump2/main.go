package main

import (
	"fmt"
	"os"
	"strings"

	"golang.org/x/tools/go/packages"
	"golang.org/x/tools/go/ssa"
	"golang.org/x/tools/go/ssa/ssautil"
)

func main() {
	pat := os.Args[1]
	fn := os.Args[2]
	cfg := &packages.Config{Mode: packages.LoadSyntax, Dir: "/repo", BuildFlags: []string{"-tags=verif"}}
	pkgs, err := packages.Load(cfg, pat)
	if err != nil {
		panic(err)
	}
	prog, spkgs := ssautil.Packages(pkgs, ssa.BuilderMode(0))
	prog.Build()
	for _, p := range spkgs {
		if p == nil {
			continue
		}
		for _, m := range p.Members {
			if f, ok := m.(*ssa.Function); ok && strings.Contains(f.Name(), fn) {
				f.WriteTo(os.Stdout)
			}
			if t, ok := m.(*ssa.Type); ok {
				for _, T := range []interface{ String() string }{t.Type()} {
					_ = T
				}
				ms := prog.MethodSets.MethodSet(t.Type())
				for i := 0; i < ms.Len(); i++ {
					f := prog.MethodValue(ms.At(i))
					if f != nil && strings.Contains(f.Name(), fn) {
						f.WriteTo(os.Stdout)
						for _, an := range f.AnonFuncs {
							an.WriteTo(os.Stdout)
						}
					}
				}
			}
		}
	}
	fmt.Println("done")
}
