package main

// C16 inventories.
//  C16.coverage: every key family of the stores (specs/c16_families.txt; every key-builder function of the code must be
//  classified there) must be read by something reachable from an ExportGenesis function and written by something
//  reachable from an InitGenesis function.
//  C16.binary_key_split: no exporter may parse, with strings.Split(key, "/") and a fixed part count, a key that embeds
//  raw big-endian heights (a height byte 0x2F is a '/').

import (
	"fmt"
	"go/constant"
	"go/token"
	"go/types"
	"os"
	"path/filepath"
	"sort"
	"strings"

	"golang.org/x/tools/go/callgraph"
	"golang.org/x/tools/go/callgraph/cha"
	"golang.org/x/tools/go/ssa"
)

type InvViolation struct {
	Key    string
	Detail string
}

var chaCache = map[*ssa.Program]*callgraph.Graph{}

func chaGraph(w *World) *callgraph.Graph {
	if g, ok := chaCache[w.Prog]; ok {
		return g
	}
	g := cha.CallGraph(w.Prog)
	chaCache[w.Prog] = g
	return g
}

// reachFrom: in-repo, non-test functions reachable from the roots selected by pick.
func reachFrom(w *World, pick func(fn *ssa.Function) bool) map[*ssa.Function]bool {
	cg := chaGraph(w)
	reach := map[*ssa.Function]bool{}
	var work []*ssa.Function
	for fn := range cg.Nodes {
		if fn == nil || fn.Blocks == nil || !isStateMachinePkg(fnPkgPath(fn)) {
			continue
		}
		if strings.HasSuffix(w.Prog.Fset.Position(fn.Pos()).Filename, "_test.go") {
			continue
		}
		if pick(fn) {
			reach[fn] = true
			work = append(work, fn)
		}
	}
	for len(work) > 0 {
		fn := work[len(work)-1]
		work = work[:len(work)-1]
		if n := cg.Nodes[fn]; n != nil {
			for _, e := range n.Out {
				cal := e.Callee.Func
				if cal == nil || reach[cal] || cal.Blocks == nil || !strings.HasPrefix(fnPkgPath(cal), repoModule) {
					continue
				}
				if strings.HasSuffix(w.Prog.Fset.Position(cal.Pos()).Filename, "_test.go") || !isStateMachinePkg(fnPkgPath(cal)) {
					continue
				}
				reach[cal] = true
				work = append(work, cal)
			}
		}
		for _, an := range fn.AnonFuncs {
			if !reach[an] {
				reach[an] = true
				work = append(work, an)
			}
		}
	}
	return reach
}

// tokensOf: string constants and referenced functions / globals of a function (short names pkg.Name).
func tokensOf(fn *ssa.Function) map[string]bool {
	out := map[string]bool{}
	short := func(pkgPath, name string) string {
		i := strings.LastIndex(pkgPath, "/")
		return pkgPath[i+1:] + "." + name
	}
	for _, b := range fn.Blocks {
		for _, in := range b.Instrs {
			for _, op := range in.Operands(nil) {
				if op == nil || *op == nil {
					continue
				}
				switch x := (*op).(type) {
				case *ssa.Const:
					if x.Value != nil && x.Value.Kind() == constant.String {
						out["\""+constant.StringVal(x.Value)+"\""] = true
					}
				case *ssa.Function:
					if x.Pkg != nil {
						out[short(x.Pkg.Pkg.Path(), x.Name())] = true
						// the package path's last two elements, to tell the two `types` packages apart
						parts := strings.Split(x.Pkg.Pkg.Path(), "/")
						if len(parts) >= 2 {
							out[parts[len(parts)-2]+"/"+parts[len(parts)-1]+"."+x.Name()] = true
						}
					}
				case *ssa.Global:
					out[short(x.Pkg.Pkg.Path(), x.Name())] = true
					parts := strings.Split(x.Pkg.Pkg.Path(), "/")
					if len(parts) >= 2 {
						out[parts[len(parts)-2]+"/"+parts[len(parts)-1]+"."+x.Name()] = true
					}
				}
			}
		}
	}
	return out
}

type keyFamily struct {
	Name   string
	Tokens []string
}

func loadFamilies() (fams []keyFamily, builders map[string]string, err error) {
	data, err := os.ReadFile(filepath.Join(verifDir, "specs", "c16_families.txt"))
	if err != nil {
		return nil, nil, err
	}
	builders = map[string]string{}
	for _, l := range strings.Split(string(data), "\n") {
		l = strings.TrimSpace(l)
		if l == "" || strings.HasPrefix(l, "#") {
			continue
		}
		parts := strings.SplitN(l, ":", 2)
		if len(parts) != 2 {
			continue
		}
		head := strings.Fields(parts[0])
		if len(head) != 2 {
			continue
		}
		switch head[0] {
		case "family":
			fams = append(fams, keyFamily{head[1], splitTokens(parts[1])})
		case "builders":
			for _, b := range strings.Fields(parts[1]) {
				builders[b] = head[1]
			}
		}
	}
	return fams, builders, nil
}

func splitTokens(s string) []string {
	var out []string
	s = strings.TrimSpace(s)
	for len(s) > 0 {
		if s[0] == '"' {
			j := strings.Index(s[1:], "\"")
			if j < 0 {
				break
			}
			out = append(out, s[:j+2])
			s = strings.TrimSpace(s[j+2:])
			continue
		}
		j := strings.IndexAny(s, " \t")
		if j < 0 {
			out = append(out, s)
			break
		}
		out = append(out, s[:j])
		s = strings.TrimSpace(s[j:])
	}
	return out
}

func init() {
	inventoryChecks["C16.coverage"] = func(w *World) InventoryResult {
		res := InventoryResult{Name: "C16.coverage"}
		fams, builders, err := loadFamilies()
		if err != nil {
			res.Violations = append(res.Violations, "cannot read specs/c16_families.txt: "+err.Error())
			return res
		}
		exp := reachFrom(w, func(fn *ssa.Function) bool { return fn.Name() == "ExportGenesis" })
		imp := reachFrom(w, func(fn *ssa.Function) bool { return fn.Name() == "InitGenesis" })
		dbgReach(w, exp, "export")
		dbgReach(w, imp, "import")
		expTok, impTok := map[string]bool{}, map[string]bool{}
		for fn := range exp {
			for t := range tokensOf(fn) {
				expTok[t] = true
			}
		}
		for fn := range imp {
			for t := range tokensOf(fn) {
				impTok[t] = true
			}
		}
		if os.Getenv("TIBCVC_DEBUG_REACH") != "" {
			fmt.Println("EXPORT TOKENS", sortedKeys(expTok))
			fmt.Println("IMPORT TOKENS", sortedKeys(impTok))
		}
		// a quoted token matches any string constant that contains it (constants are folded: "consensusStates/" ...)
		contains := func(set map[string]bool, tok string) bool {
			if set[tok] {
				return true
			}
			if strings.HasPrefix(tok, "\"") {
				inner := strings.Trim(tok, "\"")
				for k := range set {
					if strings.HasPrefix(k, "\"") && strings.Contains(k, inner) {
						return true
					}
				}
			}
			return false
		}
		famNames := map[string]bool{}
		for _, f := range fams {
			famNames[f.Name] = true
			e, i := false, false
			for _, t := range f.Tokens {
				if contains(expTok, t) {
					e = true
				}
				if contains(impTok, t) {
					i = true
				}
			}
			status := "exported and re-imported"
			switch {
			case !e && !i:
				status = "NOT exported, NOT imported"
			case !e:
				status = "NOT exported"
			case !i:
				status = "NOT imported"
			}
			res.Items = append(res.Items, fmt.Sprintf("family %-18s %s", f.Name, status))
			if !e || !i {
				res.Keyed = append(res.Keyed, InvViolation{Key: "family." + f.Name, Detail: fmt.Sprintf("key family %s is %s by the genesis functions (evidence tokens %v; export reach %d functions, import reach %d functions): state stored under it does not survive an export / re-import", f.Name, strings.ToLower(status), f.Tokens, len(exp), len(imp))})
			}
		}
		// every key builder of the code must be classified
		var unclassified []string
		for _, sp := range w.Prog.AllPackages() {
			if !isStateMachinePkg(sp.Pkg.Path()) {
				continue
			}
			for name, m := range sp.Members {
				fn, ok := m.(*ssa.Function)
				if !ok || fn.Blocks == nil || fn.Signature.Recv() != nil {
					continue
				}
				if !(strings.HasSuffix(name, "Key") || strings.HasSuffix(name, "Path")) || fn.Signature.Results().Len() != 1 {
					continue
				}
				rt := fn.Signature.Results().At(0).Type()
				if !(isByteSlice(rt) || isBasicString(rt)) {
					continue
				}
				if strings.HasSuffix(w.Prog.Fset.Position(fn.Pos()).Filename, "_test.go") {
					continue
				}
				parts := strings.Split(sp.Pkg.Path(), "/")
				id := parts[len(parts)-2] + "/" + parts[len(parts)-1] + "." + name
				fam, ok := builders[id]
				if !ok {
					unclassified = append(unclassified, id)
				} else if fam != "ignore" && !famNames[fam] {
					unclassified = append(unclassified, id+" (assigned to unknown family "+fam+")")
				}
			}
		}
		sort.Strings(unclassified)
		for _, u := range unclassified {
			res.Keyed = append(res.Keyed, InvViolation{Key: "unclassified." + u, Detail: "key builder " + u + " is not assigned to a key family in specs/c16_families.txt: a new kind of stored state must be covered by export and import"})
		}
		return res
	}

	inventoryChecks["C16.binary_key_split"] = func(w *World) InventoryResult {
		res := InventoryResult{Name: "C16.binary_key_split"}
		exp := reachFrom(w, func(fn *ssa.Function) bool { return fn.Name() == "ExportGenesis" })
		for fn := range exp {
			splits := false
			lenCmp := false
			heights := false
			for _, b := range fn.Blocks {
				for _, in := range b.Instrs {
					if c, ok := in.(*ssa.Call); ok {
						if f, ok := c.Call.Value.(*ssa.Function); ok {
							if fnPkgPath(f) == "strings" && f.Name() == "Split" && len(c.Call.Args) == 2 {
								if k, ok := c.Call.Args[1].(*ssa.Const); ok && k.Value != nil && constant.StringVal(k.Value) == "/" {
									splits = true
								}
							}
						}
					}
					if bo, ok := in.(*ssa.BinOp); ok && (bo.Op == token.EQL || bo.Op == token.NEQ || bo.Op == token.LSS || bo.Op == token.GTR || bo.Op == token.LEQ || bo.Op == token.GEQ) {
						if call, ok := bo.X.(*ssa.Call); ok {
							if bi, ok := call.Call.Value.(*ssa.Builtin); ok && bi.Name() == "len" {
								if _, isConst := bo.Y.(*ssa.Const); isConst {
									if sl, ok := call.Call.Args[0].Type().Underlying().(*types.Slice); ok && isBasicString(sl.Elem()) {
										lenCmp = true
									}
								}
							}
						}
					}
				}
			}
			toks := tokensOf(fn)
			if toks["\"consensusStates\""] || toks["24-host.KeyClientStorePrefix"] || toks["core/24-host.KeyClientStorePrefix"] || toks["\"clients\""] {
				heights = true
			}
			name := shortKey(FuncKey(fn))
			if fn.Parent() != nil {
				name = shortKey(FuncKey(fn.Parent())) + "$" + fn.Name()
			}
			if splits && lenCmp && heights {
				res.Items = append(res.Items, name+": splits keys of the consensus-state family on \"/\" with a fixed part count")
				res.Keyed = append(res.Keyed, InvViolation{Key: "split." + name, Detail: name + " parses keys that embed 16 raw big-endian height bytes with strings.Split(key, \"/\") and a fixed number of parts: every height with a byte 0x2F (47, 303, 559, ... , 12079 ...) yields one part more and the entry is silently dropped from the export"})
			} else if splits && heights {
				res.Items = append(res.Items, name+": splits on \"/\" without a fixed part count (tolerates binary heights)")
			}
		}
		sort.Strings(res.Items)
		return res
	}
}
