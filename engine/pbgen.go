package main

// Generated protobuf code (*.pb.go) is never under contract (DESIGN §2.1). Its Marshal/Unmarshal methods are given the
// A-PROTO model: Unmarshal fills the receiver with deterministic views of the bytes and fails exactly on bytes that
// are not a valid encoding; Marshal is the uninterpreted encoder.

import (
	"fmt"
	"go/types"
	"strings"

	"golang.org/x/tools/go/ssa"
)

func (e *Engine) generatedPbCall(st *State, fn *ssa.Function, args []Val) ([]Val, bool) {
	if fn == nil || fn.Signature.Recv() == nil || len(args) == 0 {
		return nil, false
	}
	name := fn.Name()
	if name != "Unmarshal" && name != "Marshal" {
		return nil, false
	}
	file := e.W.Prog.Fset.Position(fn.Pos()).Filename
	if !strings.HasSuffix(file, ".pb.go") {
		return nil, false
	}
	pt, ok := fn.Signature.Recv().Type().(*types.Pointer)
	if !ok {
		return nil, false
	}
	tag := typeTag(pt.Elem())
	switch name {
	case "Unmarshal":
		if len(args) != 2 {
			return nil, false
		}
		bz := e.toBytesTerm(st, args[1])
		e.pbDecodeInto(st, bz, args[0])
		v := "pb_valid_" + tag
		e.C.DeclareFun(v, []Sort{SStr}, SBool)
		er := mk(SErr, e.C.Fresh("unmarshal_err", SErr))
		st.assume(fmt.Sprintf("(= (= %s err_nil) (%s %s))", er.T, v, bstrOf(bz.T)))
		return []Val{er}, true
	case "Marshal":
		if len(args) != 1 {
			return nil, false
		}
		return []Val{e.pbEncode(st, args[0]), mk(SErr, "err_nil")}, true
	}
	return nil, false
}
