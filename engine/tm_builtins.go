package main

// Contract-language names for the uninterpreted functions of tm_externs.go.

import (
	"fmt"
	"strings"
)

func (e *Engine) tmBuiltin(env *Env, x *Expr) (Val, bool) {
	var args []Val
	evalArgs := func() {
		for _, a := range x.Args {
			args = append(args, e.evalExpr(env, a))
		}
	}
	term := func(i int, s Sort) *Term { return e.coerceTo(env, args[i], s) }
	switch x.Name {
	case "revof":
		evalArgs()
		e.C.DeclareFun("rev_of", []Sort{SStr}, BV(64))
		return mkBV(64, "(rev_of "+term(0, SStr).T+")", false), true
	case "isrevformat":
		evalArgs()
		e.C.DeclareFun("is_rev_format", []Sort{SStr}, SBool)
		return mkBool("(is_rev_format " + term(0, SStr).T + ")"), true
	case "setrev":
		evalArgs()
		e.C.DeclareFun("set_rev", []Sort{SStr, BV(64)}, SStr)
		return mk(SStr, fmt.Sprintf("(set_rev %s %s)", term(0, SStr).T, term(1, BV(64)).T)), true
	case "valsetof", "sheaderof":
		evalArgs()
		uf := map[string]string{"valsetof": "valset_of", "sheaderof": "sheader_of"}[x.Name]
		e.C.DeclareFun(uf, []Sort{"Obj"}, "Obj")
		in := e.objOfStructPtr(env.st, args[0], uf)
		return mk("Obj", "("+uf+" "+in+")"), true
	case "valsetok", "sheaderok":
		evalArgs()
		uf := map[string]string{"valsetok": "valset_of", "sheaderok": "sheader_of"}[x.Name]
		e.C.DeclareFun(uf+"_ok", []Sort{"Obj"}, SBool)
		in := e.objOfStructPtr(env.st, args[0], uf)
		return mkBool("(" + uf + "_ok " + in + ")"), true
	case "valsethash":
		evalArgs()
		e.C.DeclareFun("valset_hash", []Sort{"Obj"}, SStr)
		return mk(SStr, "(valset_hash "+term(0, "Obj").T+")"), true
	case "lightverify":
		evalArgs()
		sorts := []Sort{SStr, BV(64), SInt, SStr, "Obj", "Obj", "Obj", BV(64), SInt, BV(64), BV(64), BV(64)}
		if len(args) != len(sorts) {
			unsupported("lightverify takes %d arguments", len(sorts))
		}
		e.C.DeclareFun("LightVerify", sorts, SBool)
		var as []string
		for i, s := range sorts {
			as = append(as, term(i, s).T)
		}
		return mkBool("(LightVerify " + strings.Join(as, " ") + ")"), true
	case "subrepr":
		// subrepr(ctor, args...): the byte string a client-store key builder returns (without the client prefix)
		if len(x.Args) < 1 || x.Args[0].Op != "ident" {
			unsupported("subrepr(ctor, args...)")
		}
		kc, ok := e.C.KeyCtorByName(x.Args[0].Name)
		if !ok {
			unsupported("subrepr: unknown key constructor %s", x.Args[0].Name)
		}
		var sorts []Sort
		var as []string
		for i, a := range x.Args[1:] {
			s := kc.Args[i+1] // skip the client-name argument
			sorts = append(sorts, s)
			as = append(as, e.coerceTo(env, e.evalExpr(env, a), s).T)
		}
		name := "subrepr_" + x.Args[0].Name
		e.C.DeclareFun(name, sorts, SStr)
		if len(as) == 0 {
			return mk(SStr, name), true
		}
		return mk(SStr, "("+name+" "+strings.Join(as, " ")+")"), true
	}
	return nil, false
}
