package main

// Replay of solver models against the real code (go test -overlay; nothing is written to /repo).

// tryReplay returns (true, output) when the model was turned into a concrete input on which the real code
// violates the clause.
func tryReplay(e *Engine, g *Group) (bool, string) {
	return false, ""
}
