package main

// Loading /repo's current working tree: go/packages + go/ssa, contract discovery.

import (
	"fmt"
	"go/ast"
	"go/types"
	"os"
	"path/filepath"
	"sort"
	"strings"

	"golang.org/x/tools/go/packages"
	"golang.org/x/tools/go/ssa"
	"golang.org/x/tools/go/ssa/ssautil"
)

const repoModule = "github.com/bianjieai/tibc-go"

type PkgInfo struct {
	P       *packages.Package
	S       *ssa.Package
	Imports map[string]string // alias -> path (union over files)
	Dir     string
}

type World struct {
	RepoDir  string
	Prog     *ssa.Program
	Pkgs     map[string]*PkgInfo // by package path
	Files    []*ContractFile
	Contract map[string]*FuncContract // key: pkgpath + "::" + target
	IfaceC   map[string]*FuncContract // key: pkgpath.Iface.Method
	Specs    map[string]*SpecFn
	KeyFns   map[string]*KeyFn // key: pkgpath.Func
	Wires    map[string]*Wire  // key: pkgpath.Struct.Field
	Lemmas   map[string]*Lemma
	Ghosts   map[string]string // ghost var -> sort
	GhostOrd []string
	Axioms   []*Clause
	AxiomPkg []string
	Invs     map[string]*Clause
	InvPkg   map[string]string
	Sorts    []string
	KeyCtorDecls []KeyCtorDecl
	AllPkgs  []*packages.Package // every package reachable (for extern types)
	byPath   map[string]*packages.Package
}

func LoadWorld(repoDir string, patterns []string, overlay map[string][]byte, specDir string) (*World, error) {
	cfg := &packages.Config{
		Mode:       packages.LoadSyntax,
		Dir:        repoDir,
		BuildFlags: []string{"-tags=verif"},
		Overlay:    overlay,
		Env:        append(os.Environ(), "GOFLAGS=-mod=mod", "GOPROXY=off", "GOSUMDB=off", "GOTOOLCHAIN=local"),
	}
	pkgs, err := packages.Load(cfg, patterns...)
	if err != nil {
		return nil, err
	}
	var errs []string
	packages.Visit(pkgs, nil, func(p *packages.Package) {
		for _, e := range p.Errors {
			errs = append(errs, e.Error())
		}
	})
	if len(errs) > 0 {
		return nil, fmt.Errorf("package errors:\n%s", strings.Join(errs, "\n"))
	}
	prog, spkgs := ssautil.Packages(pkgs, ssa.GlobalDebug|ssa.InstantiateGenerics)
	prog.Build()
	w := &World{RepoDir: repoDir, Prog: prog, Pkgs: map[string]*PkgInfo{}, Contract: map[string]*FuncContract{},
		IfaceC: map[string]*FuncContract{}, Specs: map[string]*SpecFn{}, KeyFns: map[string]*KeyFn{}, Wires: map[string]*Wire{},
		Lemmas: map[string]*Lemma{}, Ghosts: map[string]string{}, Invs: map[string]*Clause{}, InvPkg: map[string]string{}, byPath: map[string]*packages.Package{}}
	packages.Visit(pkgs, nil, func(p *packages.Package) {
		w.byPath[p.PkgPath] = p
	})
	for i, p := range pkgs {
		if spkgs[i] == nil {
			continue
		}
		pi := &PkgInfo{P: p, S: spkgs[i], Imports: map[string]string{}}
		if len(p.GoFiles) > 0 {
			pi.Dir = filepath.Dir(p.GoFiles[0])
		}
		for _, f := range p.Syntax {
			for _, im := range f.Imports {
				path := strings.Trim(im.Path.Value, "\"")
				alias := ""
				if im.Name != nil {
					alias = im.Name.Name
				} else if ip := w.byPath[path]; ip != nil {
					alias = ip.Name
				} else {
					alias = filepath.Base(path)
				}
				if alias != "_" && alias != "." {
					pi.Imports[alias] = path
				}
			}
		}
		w.Pkgs[p.PkgPath] = pi
	}
	// contract files inside the packages
	var files []string
	for _, pi := range w.Pkgs {
		if pi.Dir == "" {
			continue
		}
		cand := filepath.Join(pi.Dir, "zz_contracts_verif.go")
		var data []byte
		if ov, ok := overlay[cand]; ok {
			data = ov
		} else if b, err := os.ReadFile(cand); err == nil {
			data = b
		}
		if data != nil {
			files = append(files, cand+"\x00"+pi.P.PkgPath)
		}
	}
	sort.Strings(files)
	for _, f := range files {
		parts := strings.SplitN(f, "\x00", 2)
		cf, err := ParseContractFile(parts[0], parts[1])
		if err != nil {
			return nil, err
		}
		w.Files = append(w.Files, cf)
	}
	// spec files under /verif/specs (assumed contracts, lemmas, ghost declarations)
	if specDir != "" {
		sfs, _ := filepath.Glob(filepath.Join(specDir, "*.spec"))
		sort.Strings(sfs)
		for _, sf := range sfs {
			// the first line "package <path>" selects the import scope
			pkg := specPackage(sf)
			cf, err := ParseContractFile(sf, pkg)
			if err != nil {
				return nil, err
			}
			w.Files = append(w.Files, cf)
		}
	}
	for _, cf := range w.Files {
		for _, fc := range cf.Funcs {
			for a, p := range cf.Imports {
				_ = a
				_ = p
			}
			if fc.IsIface {
				key, err := w.resolveIfaceTarget(cf, fc.Target)
				if err != nil {
					return nil, fmt.Errorf("%s:%d: %v", fc.File, fc.Line, err)
				}
				w.IfaceC[key] = fc
			} else {
				key, err := w.resolveFuncTarget(cf, fc.Target)
				if err != nil {
					return nil, fmt.Errorf("%s:%d: %v", fc.File, fc.Line, err)
				}
				if _, dup := w.Contract[key]; dup {
					return nil, fmt.Errorf("%s:%d: duplicate contract for %s", fc.File, fc.Line, key)
				}
				w.Contract[key] = fc
			}
		}
		for _, sp := range cf.Specs {
			w.Specs[sp.Name] = sp
		}
		for _, kf := range cf.KeyFns {
			w.KeyFns[kf.Pkg+"."+kf.Func] = kf
		}
		for _, wr := range cf.Wires {
			w.Wires[wr.Pkg+"."+wr.Struct+"."+wr.Field] = wr
		}
		for _, l := range cf.Lemmas {
			w.Lemmas[l.Name] = l
		}
		for _, g := range cf.Ghosts {
			if _, ok := w.Ghosts[g.Name]; !ok {
				w.GhostOrd = append(w.GhostOrd, g.Name)
			}
			w.Ghosts[g.Name] = g.Sort
		}
		for _, a := range cf.Axioms {
			w.Axioms = append(w.Axioms, a)
			w.AxiomPkg = append(w.AxiomPkg, cf.Pkg)
		}
		for _, a := range cf.Invs {
			w.Invs[a.Label] = a
			w.InvPkg[a.Label] = cf.Pkg
		}
		w.Sorts = append(w.Sorts, cf.Sorts...)
		w.KeyCtorDecls = append(w.KeyCtorDecls, cf.KeyCtors...)
	}
	return w, nil
}

func specPackage(path string) string {
	data, err := os.ReadFile(path)
	if err != nil {
		return ""
	}
	for _, l := range strings.Split(string(data), "\n") {
		l = strings.TrimSpace(l)
		if strings.HasPrefix(l, "# package ") {
			return strings.TrimSpace(strings.TrimPrefix(l, "# package "))
		}
	}
	return ""
}

// importsFor returns alias->path for a contract file: its own imports first, then the Go package's.
func (w *World) importsFor(pkg string, own map[string]string) map[string]string {
	m := map[string]string{}
	if pi := w.Pkgs[pkg]; pi != nil {
		for a, p := range pi.Imports {
			m[a] = p
		}
	}
	for a, p := range own {
		m[a] = p
	}
	return m
}

func (w *World) fileImports(pkg string) map[string]string {
	m := map[string]string{}
	if pi := w.Pkgs[pkg]; pi != nil {
		for a, p := range pi.Imports {
			m[a] = p
		}
	}
	for _, cf := range w.Files {
		if cf.Pkg == pkg {
			for a, p := range cf.Imports {
				m[a] = p
			}
		}
	}
	return m
}

// resolveFuncTarget turns "(Keeper).SendPacket", "CommitPacket", "alias.(T).M", "alias.F" into a canonical key.
func (w *World) resolveFuncTarget(cf *ContractFile, target string) (string, error) {
	pkg := cf.Pkg
	t := target
	if !strings.HasPrefix(t, "(") {
		if i := strings.Index(t, "."); i > 0 {
			alias := t[:i]
			imps := w.importsFor(cf.Pkg, cf.Imports)
			if p, ok := imps[alias]; ok {
				pkg = p
				t = t[i+1:]
			}
		}
	}
	return pkg + "::" + t, nil
}

func (w *World) resolveIfaceTarget(cf *ContractFile, target string) (string, error) {
	// alias.Iface.Method or Iface.Method
	parts := strings.Split(target, ".")
	pkg := cf.Pkg
	if len(parts) == 3 {
		imps := w.importsFor(cf.Pkg, cf.Imports)
		p, ok := imps[parts[0]]
		if !ok {
			return "", fmt.Errorf("unknown package alias %q in %q", parts[0], target)
		}
		pkg = p
		parts = parts[1:]
	}
	if len(parts) != 2 {
		return "", fmt.Errorf("iface target %q must be [alias.]Iface.Method", target)
	}
	return pkg + "." + parts[0] + "." + parts[1], nil
}

// FuncKey is the canonical key of an ssa function: pkgpath::(T).M or pkgpath::F
func FuncKey(fn *ssa.Function) string {
	if fn == nil {
		return ""
	}
	if fn.Pkg == nil && fn.Signature.Recv() == nil {
		if fn.Origin() != nil {
			return FuncKey(fn.Origin())
		}
		return "::" + fn.Name()
	}
	if recv := fn.Signature.Recv(); recv != nil {
		t := recv.Type()
		if p, ok := t.(*types.Pointer); ok {
			t = p.Elem()
			if n, ok := t.(*types.Named); ok && n.Obj().Pkg() != nil {
				return n.Obj().Pkg().Path() + "::(*" + n.Obj().Name() + ")." + fn.Name()
			}
		}
		if n, ok := t.(*types.Named); ok && n.Obj().Pkg() != nil {
			return n.Obj().Pkg().Path() + "::(" + n.Obj().Name() + ")." + fn.Name()
		}
		if n, ok := t.(*types.Named); ok {
			return "::(" + n.Obj().Name() + ")." + fn.Name()
		}
	}
	if fn.Pkg != nil {
		return fn.Pkg.Pkg.Path() + "::" + fn.Name()
	}
	return "::" + fn.Name()
}

// LookupFunc finds the ssa function for a canonical key.
func (w *World) LookupFunc(key string) *ssa.Function {
	parts := strings.SplitN(key, "::", 2)
	if len(parts) != 2 {
		return nil
	}
	pkgPath, t := parts[0], parts[1]
	var spkg *ssa.Package
	if pi := w.Pkgs[pkgPath]; pi != nil {
		spkg = pi.S
	} else {
		for _, sp := range w.Prog.AllPackages() {
			if sp.Pkg.Path() == pkgPath {
				spkg = sp
				break
			}
		}
	}
	if spkg == nil {
		return nil
	}
	if strings.HasPrefix(t, "(") {
		i := strings.Index(t, ").")
		tn := t[1:i]
		mn := t[i+2:]
		ptr := false
		if strings.HasPrefix(tn, "*") {
			ptr = true
			tn = tn[1:]
		}
		obj := spkg.Pkg.Scope().Lookup(tn)
		if obj == nil {
			return nil
		}
		var T types.Type = obj.Type()
		if ptr {
			T = types.NewPointer(T)
		}
		ms := w.Prog.MethodSets.MethodSet(T)
		for i := 0; i < ms.Len(); i++ {
			if ms.At(i).Obj().Name() == mn {
				f := w.Prog.MethodValue(ms.At(i))
				// the value-receiver method also shows up in the pointer method set as a wrapper
				if f != nil && f.Synthetic != "" && !ptr {
					continue
				}
				return f
			}
		}
		if !ptr {
			// maybe declared on pointer receiver
			ms := w.Prog.MethodSets.MethodSet(types.NewPointer(T))
			for i := 0; i < ms.Len(); i++ {
				if ms.At(i).Obj().Name() == mn {
					return w.Prog.MethodValue(ms.At(i))
				}
			}
		}
		return nil
	}
	if f := spkg.Func(t); f != nil {
		return f
	}
	return nil
}

func (w *World) InRepo(fn *ssa.Function) bool {
	if fn == nil {
		return false
	}
	if fn.Pkg != nil {
		return strings.HasPrefix(fn.Pkg.Pkg.Path(), repoModule)
	}
	if p := fn.Parent(); p != nil {
		return w.InRepo(p)
	}
	if fn.Object() != nil && fn.Object().Pkg() != nil {
		return strings.HasPrefix(fn.Object().Pkg().Path(), repoModule)
	}
	if fn.Origin() != nil {
		return w.InRepo(fn.Origin())
	}
	return false
}

// LookupType resolves "alias.Type" / "path.Type" / "Type" relative to a package.
func (w *World) LookupType(pkg string, name string) (types.Type, error) {
	ptr := false
	if strings.HasPrefix(name, "*") {
		ptr = true
		name = name[1:]
	}
	pkgPath := pkg
	tn := name
	if i := strings.LastIndex(name, "."); i >= 0 {
		q := name[:i]
		tn = name[i+1:]
		imps := w.fileImports(pkg)
		if p, ok := imps[q]; ok {
			pkgPath = p
		} else {
			pkgPath = q
		}
	}
	var tp *types.Package
	if p := w.byPath[pkgPath]; p != nil && p.Types != nil {
		tp = p.Types
	} else {
		for _, sp := range w.Prog.AllPackages() {
			if sp.Pkg.Path() == pkgPath {
				tp = sp.Pkg
			}
		}
	}
	if tp == nil {
		return nil, fmt.Errorf("package %q not loaded (type %q)", pkgPath, name)
	}
	obj := tp.Scope().Lookup(tn)
	if obj == nil {
		return nil, fmt.Errorf("type %q not found in %s", tn, pkgPath)
	}
	var T types.Type = obj.Type()
	if ptr {
		T = types.NewPointer(T)
	}
	return T, nil
}

// loops: natural loops of a function, ordered by header block index.
type LoopInfo struct {
	Header *ssa.BasicBlock
	Body   map[*ssa.BasicBlock]bool
	Ord    int
}

func FindLoops(fn *ssa.Function) []*LoopInfo {
	var loops []*LoopInfo
	byHeader := map[*ssa.BasicBlock]*LoopInfo{}
	for _, b := range fn.Blocks {
		for _, s := range b.Succs {
			if s.Dominates(b) {
				li := byHeader[s]
				if li == nil {
					li = &LoopInfo{Header: s, Body: map[*ssa.BasicBlock]bool{s: true}}
					byHeader[s] = li
					loops = append(loops, li)
				}
				// collect body: nodes that reach b without passing through header
				var stack []*ssa.BasicBlock
				if !li.Body[b] {
					li.Body[b] = true
					stack = append(stack, b)
				}
				for len(stack) > 0 {
					n := stack[len(stack)-1]
					stack = stack[:len(stack)-1]
					for _, p := range n.Preds {
						if !li.Body[p] {
							li.Body[p] = true
							stack = append(stack, p)
						}
					}
				}
			}
		}
	}
	sort.Slice(loops, func(i, j int) bool { return loops[i].Header.Index < loops[j].Header.Index })
	for i, l := range loops {
		l.Ord = i
	}
	return loops
}

var _ = ast.Inspect
