package main

// Pure observers of SDK values that never influence the modelled state.

import "golang.org/x/tools/go/ssa"

func init() {
	opaque := func(doc string) externFn {
		return func(e *Engine, st *State, fr *Frame, a []Val, fn *ssa.Function, c *ssa.CallCommon) ([]Val, []*State) {
			o := mk("Obj", e.C.Fresh("sdkval", "Obj"))
			return []Val{o}, nil
		}
	}
	reg("iface:"+sdkTypes+".EventManagerI.Events", "pure: the events emitted so far (opaque)", opaque(""))
	reg("iface:"+sdkTypes+".EventManagerI.ABCIEvents", "pure: the events emitted so far (opaque)", opaque(""))
	reg(sdkTypes+"::(Events).ToABCIEvents", "pure conversion (opaque)", opaque(""))
	reg(sdkTypes+"::(*EventManager).Events", "pure: the events emitted so far (opaque)", opaque(""))
}
