package main

// Assumed contracts for package strings / strconv (abstract strings: uninterpreted functions with the few facts the
// callers need). A-STRINGS: the functions named here behave as documented by the Go standard library.

import (
	"fmt"
	"go/types"

	"golang.org/x/tools/go/ssa"
)

func init() {
	uf := func(name string, args []Sort, res Sort, goT func(fn *ssa.Function) types.Type) externFn {
		return func(e *Engine, st *State, fr *Frame, a []Val, fn *ssa.Function, c *ssa.CallCommon) ([]Val, []*State) {
			e.C.DeclareFun(name, args, res)
			t := "(" + name
			for i := range args {
				at, ok := a[i].(*Term)
				if !ok {
					unsupported("%s: argument %d is %s", name, i, valString(a[i]))
				}
				if at.S != args[i] {
					unsupported("%s: argument %d has sort %s, want %s", name, i, at.S, args[i])
				}
				t += " " + at.T
			}
			t += ")"
			r := &Term{S: res, T: t}
			if goT != nil && fn != nil {
				r.GoT = goT(fn)
			}
			if res.BVWidth() == 64 {
				r.Signed = true
			}
			return []Val{r}, nil
		}
	}
	res0 := func(fn *ssa.Function) types.Type { return fn.Signature.Results().At(0).Type() }
	reg("strings::Split", "str_split(s, sep): the sequence of substrings of s between occurrences of sep (uninterpreted sequence value)", uf("str_split", []Sort{SStr, SStr}, "Obj", res0))
	reg("strings::Join", "str_join(elems, sep) (uninterpreted)", func(e *Engine, st *State, fr *Frame, a []Val, fn *ssa.Function, c *ssa.CallCommon) ([]Val, []*State) {
		e.C.DeclareFun("str_join", []Sort{"Obj", SStr}, SStr)
		seq := e.seqObj(st, a[0])
		return []Val{mk(SStr, fmt.Sprintf("(str_join %s %s)", seq.T, a[1].(*Term).T))}, nil
	})
	reg("strings::Replace", "str_replace(s, old, new, n) (uninterpreted)", uf("str_replace", []Sort{SStr, SStr, SStr, BV(64)}, SStr, nil))
	reg("strings::ReplaceAll", "str_replace_all(s, old, new) (uninterpreted)", uf("str_replace_all", []Sort{SStr, SStr, SStr}, SStr, nil))
	reg("strings::Contains", "str_contains(s, sub) (uninterpreted predicate)", uf("str_contains", []Sort{SStr, SStr}, SBool, nil))
	reg("strings::HasSuffix", "has_suffix(s, suf) (uninterpreted predicate)", uf("has_suffix", []Sort{SStr, SStr}, SBool, nil))
	reg("strings::ToLower", "str_lower(s) (uninterpreted)", uf("str_lower", []Sort{SStr}, SStr, nil))
	reg("strings::ToUpper", "str_upper(s) (uninterpreted)", uf("str_upper", []Sort{SStr}, SStr, nil))
	reg("strings::TrimPrefix", "trim_prefix(s, p) (uninterpreted)", uf("trim_prefix", []Sort{SStr, SStr}, SStr, nil))
	reg("strings::Index", "str_index(s, sub) (uninterpreted)", uf("str_index", []Sort{SStr, SStr}, BV(64), nil))
	reg("strings::Count", "str_count(s, sub) (uninterpreted)", uf("str_count", []Sort{SStr, SStr}, BV(64), nil))
	reg("strconv::ParseUint", "(atoi(s), err) with err == nil <==> is_uint(s) (uninterpreted; itoa/atoi inverse on ground terms)", func(e *Engine, st *State, fr *Frame, a []Val, fn *ssa.Function, c *ssa.CallCommon) ([]Val, []*State) {
		e.C.DeclareFun("atoi", []Sort{SStr}, BV(64))
		e.C.DeclareFun("is_uint", []Sort{SStr}, SBool)
		s := a[0].(*Term)
		er := mk(SErr, e.C.Fresh("parse_err", SErr))
		st.assume(fmt.Sprintf("(= (= %s err_nil) (is_uint %s))", er.T, s.T))
		return []Val{mkBV(64, "(atoi "+s.T+")", false), er}, nil
	})
	reg("strconv::Itoa", "itoa(x)", func(e *Engine, st *State, fr *Frame, a []Val, fn *ssa.Function, c *ssa.CallCommon) ([]Val, []*State) {
		return []Val{mk(SStr, "(itoa "+a[0].(*Term).T+")")}, nil
	})
	reg("strconv::FormatUint", "itoa(x) for base 10", func(e *Engine, st *State, fr *Frame, a []Val, fn *ssa.Function, c *ssa.CallCommon) ([]Val, []*State) {
		if n, ok := e.concreteInt(a[1]); ok && n == 10 {
			return []Val{mk(SStr, "(itoa "+a[0].(*Term).T+")")}, nil
		}
		return []Val{mk(SStr, e.C.Fresh("fmtuint", SStr))}, nil
	})
}

// seqObj turns a slice value into an opaque sequence term. A concrete slice of strings becomes a fresh sequence
// constrained element by element.
func (e *Engine) seqObj(st *State, v Val) *Term { return e.seqObjG(st, v, false) }

// seqObjG: with global=true the defining facts of the fresh sequence constant are emitted as global axioms
// (they are definitional), so the term can be shared between paths.
func (e *Engine) seqObjG(st *State, v Val, global bool) *Term {
	assume := st.assume
	if global {
		assume = func(t string) { e.C.Axiom(t) }
	}
	switch x := v.(type) {
	case *Term:
		if x.S == "Obj" {
			return x
		}
	case *SliceV:
		e.C.DeclareFun("seq_len", []Sort{"Obj"}, BV(64))
		o := mk("Obj", e.C.Fresh("seqlit", "Obj"))
		n := 0
		if !x.Nil {
			n = x.Hi - x.Lo
		}
		assume(fmt.Sprintf("(= (seq_len %s) %s)", o.T, bvLit(uint64(n), 64)))
		if n > 0 {
			arr := e.load(st, x.Base, nil).(*ArrayV)
			for i := 0; i < n; i++ {
				switch el := arr.E[x.Lo+i].(type) {
				case *Term:
					switch el.S {
					case SStr:
						e.C.DeclareFun("seq_str", []Sort{"Obj", BV(64)}, SStr)
						assume(fmt.Sprintf("(= (seq_str %s %s) %s)", o.T, bvLit(uint64(i), 64), el.T))
					case SBytes:
						e.C.DeclareFun("seq_bytes", []Sort{"Obj", BV(64)}, SBytes)
						assume(fmt.Sprintf("(= (seq_bytes %s %s) %s)", o.T, bvLit(uint64(i), 64), el.T))
					case "Obj":
						e.C.DeclareFun("seq_obj", []Sort{"Obj", BV(64)}, "Obj")
						assume(fmt.Sprintf("(= (seq_obj %s %s) %s)", o.T, bvLit(uint64(i), 64), el.T))
					}
				}
			}
		}
		return o
	}
	unsupported("sequence value %s", valString(v))
	return nil
}
