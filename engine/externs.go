package main

// Assumed contracts for functions outside /repo (and a few in-repo leaves that only wrap them),
// implemented as executor handlers. Every handler used in a run is listed in the evidence with the
// one-line contract given in externDoc.

import (
	"fmt"
	"go/constant"
	"go/types"
	"strings"

	"golang.org/x/tools/go/ssa"
)

type externFn func(e *Engine, st *State, fr *Frame, args []Val, fn *ssa.Function, c *ssa.CallCommon) ([]Val, []*State)

var externs = map[string]externFn{}
var externDoc = map[string]string{}

func reg(key, doc string, f externFn) {
	externs[key] = f
	externDoc[key] = doc
}

const sdkTypes = "github.com/cosmos/cosmos-sdk/types"

func init() {
	// ---- errors
	wrapH := func(e *Engine, st *State, fr *Frame, args []Val, fn *ssa.Function, c *ssa.CallCommon) ([]Val, []*State) {
		return []Val{e.wrapErr(st, args[0])}, nil
	}
	reg("cosmossdk.io/errors::Wrap", "result == nil <==> err == nil; a non-nil result is not identical to any registered sentinel", wrapH)
	reg("cosmossdk.io/errors::Wrapf", "as Wrap", wrapH)
	reg("fmt::Errorf", "result != nil and is no sentinel", func(e *Engine, st *State, fr *Frame, args []Val, fn *ssa.Function, c *ssa.CallCommon) ([]Val, []*State) {
		r := mk(SErr, e.C.Fresh("errorf", SErr))
		st.assume("(not (= " + r.T + " err_nil))")
		st.assume("(not (is_sentinel " + r.T + "))")
		return []Val{r}, nil
	})
	reg("errors::New", "result != nil and is no sentinel", externs["fmt::Errorf"])
	reg("cosmossdk.io/errors::(*Error).Error", "text of a sentinel (uninterpreted)", func(e *Engine, st *State, fr *Frame, args []Val, fn *ssa.Function, c *ssa.CallCommon) ([]Val, []*State) {
		e.C.DeclareFun("err_text", []Sort{SErr}, SStr)
		if p, ok := args[0].(*PtrV); ok && p.Opaque != nil {
			return []Val{mk(SStr, "(err_text "+p.Opaque.T+")")}, nil
		}
		return []Val{mk(SStr, e.C.Fresh("errtext", SStr))}, nil
	})
	reg("fmt::Sprintf", "pure; \"%d\" of one unsigned integer is itoa(x); \"%s/%s\"-style formats of strings are the concatenation; otherwise an unconstrained string",
		func(e *Engine, st *State, fr *Frame, args []Val, fn *ssa.Function, c *ssa.CallCommon) ([]Val, []*State) {
			return []Val{e.sprintf(st, fr, args, c)}, nil
		})
	reg("fmt::Sprint", "pure, unconstrained string", func(e *Engine, st *State, fr *Frame, args []Val, fn *ssa.Function, c *ssa.CallCommon) ([]Val, []*State) {
		return []Val{mk(SStr, e.C.Fresh("sprint", SStr))}, nil
	})

	// ---- sdk.Context
	reg(sdkTypes+"::UnwrapSDKContext", "returns the sdk.Context carried by the go context (identity in the model)",
		func(e *Engine, st *State, fr *Frame, args []Val, fn *ssa.Function, c *ssa.CallCommon) ([]Val, []*State) {
			o := mk("Obj", "sdkctx")
			e.C.DeclareFun("sdkctx", nil, "Obj")
			o.GoT = fn.Signature.Results().At(0).Type()
			return []Val{o}, nil
		})
	reg(sdkTypes+"::(Context).KVStore", "the root KVStore of the given store key (ghost store selected by the wiring of the key)",
		func(e *Engine, st *State, fr *Frame, args []Val, fn *ssa.Function, c *ssa.CallCommon) ([]Val, []*State) {
			switch k := args[1].(type) {
			case *StoreKeyV:
				return []Val{&StoreHandleV{Ghost: k.Ghost}}, nil
			case *IfaceV:
				if sk, ok := k.V.(*StoreKeyV); ok {
					return []Val{&StoreHandleV{Ghost: sk.Ghost}}, nil
				}
			}
			unsupported("ctx.KVStore of an unwired store key (%s): add a wire declaration", valString(args[1]))
			return nil, nil
		})
	reg(sdkTypes+"::(Context).BlockTime", "pure; the block time of the context: now(ctx)", func(e *Engine, st *State, fr *Frame, args []Val, fn *ssa.Function, c *ssa.CallCommon) ([]Val, []*State) {
		return []Val{e.timeVal(st, "now_ns")}, nil
	})
	reg(sdkTypes+"::(Context).BlockHeight", "pure; the block height of the context", func(e *Engine, st *State, fr *Frame, args []Val, fn *ssa.Function, c *ssa.CallCommon) ([]Val, []*State) {
		e.C.DeclareFun("block_height", nil, BV(64))
		return []Val{mkBV(64, "block_height", true)}, nil
	})
	reg(sdkTypes+"::(Context).EventManager", "the context's event manager (events are appended to the ghost list `events`)",
		func(e *Engine, st *State, fr *Frame, args []Val, fn *ssa.Function, c *ssa.CallCommon) ([]Val, []*State) {
			return []Val{&EventMgrV{}}, nil
		})
	reg(sdkTypes+"::(Context).Logger", "noise", func(e *Engine, st *State, fr *Frame, args []Val, fn *ssa.Function, c *ssa.CallCommon) ([]Val, []*State) {
		return []Val{&NoiseV{"logger"}}, nil
	})
	reg(sdkTypes+"::(Context).GasMeter", "noise (gas is not modelled: A-GAS)", func(e *Engine, st *State, fr *Frame, args []Val, fn *ssa.Function, c *ssa.CallCommon) ([]Val, []*State) {
		return []Val{&NoiseV{"gasmeter"}}, nil
	})
	reg(sdkTypes+"::NewAttribute", "Attribute{Key: k, Value: v}", func(e *Engine, st *State, fr *Frame, args []Val, fn *ssa.Function, c *ssa.CallCommon) ([]Val, []*State) {
		return []Val{&AttrV{K: args[0].(*Term), V: args[1].(*Term)}}, nil
	})
	reg(sdkTypes+"::NewEvent", "Event{Type: ty, Attributes: attrs}", func(e *Engine, st *State, fr *Frame, args []Val, fn *ssa.Function, c *ssa.CallCommon) ([]Val, []*State) {
		e.needEvents()
		attrs := "anil"
		if sl, ok := args[1].(*SliceV); ok {
			if !sl.Nil {
				arr := e.load(st, sl.Base, nil).(*ArrayV)
				for i := sl.Hi - 1; i >= sl.Lo; i-- {
					a, ok := arr.E[i].(*AttrV)
					if !ok {
						unsupported("NewEvent: attribute %d is %s", i, valString(arr.E[i]))
					}
					attrs = fmt.Sprintf("(acons %s %s %s)", a.K.T, a.V.T, attrs)
				}
			}
		} else {
			attrs = e.C.Fresh("attrs", "AttrL")
		}
		return []Val{mk("Ev", fmt.Sprintf("(mk_ev %s %s)", args[0].(*Term).T, attrs))}, nil
	})
	reg(sdkTypes+"::Uint64ToBigEndian", "len(result) == 8 and BigEndianToUint64(result) == x (be64)", func(e *Engine, st *State, fr *Frame, args []Val, fn *ssa.Function, c *ssa.CallCommon) ([]Val, []*State) {
		return []Val{mk(SBytes, "(mkB false "+e.be64(st, args[0].(*Term).T)+")")}, nil
	})
	reg(sdkTypes+"::BigEndianToUint64", "0 for an empty slice, otherwise the big-endian decoding (unbe64)", func(e *Engine, st *State, fr *Frame, args []Val, fn *ssa.Function, c *ssa.CallCommon) ([]Val, []*State) {
		b := e.toBytesTerm(st, args[0])
		s := bstrOf(b.T)
		return []Val{mkBV(64, fmt.Sprintf("(ite (= (slen %s) #x0000000000000000) #x0000000000000000 (unbe64 %s))", s, s), false)}, nil
	})
	reg("crypto/sha256::Sum256", "result == sha256(data) (uninterpreted; 32 bytes)", func(e *Engine, st *State, fr *Frame, args []Val, fn *ssa.Function, c *ssa.CallCommon) ([]Val, []*State) {
		b := e.toBytesTerm(st, args[0])
		return []Val{&Term{S: "Arr", T: e.sha(st, bstrOf(b.T))}}, nil
	})
	reg("bytes::Equal", "result <==> same byte content (nil and empty are equal)", func(e *Engine, st *State, fr *Frame, args []Val, fn *ssa.Function, c *ssa.CallCommon) ([]Val, []*State) {
		a := e.toBytesTerm(st, args[0])
		b := e.toBytesTerm(st, args[1])
		return []Val{mkBool(smtEq(bstrOf(a.T), bstrOf(b.T)))}, nil
	})
	reg("bytes::HasPrefix", "uninterpreted predicate has_prefix", func(e *Engine, st *State, fr *Frame, args []Val, fn *ssa.Function, c *ssa.CallCommon) ([]Val, []*State) {
		e.C.DeclareFun("has_prefix", []Sort{SStr, SStr}, SBool)
		a := e.toBytesTerm(st, args[0])
		b := e.toBytesTerm(st, args[1])
		return []Val{mkBool(fmt.Sprintf("(has_prefix %s %s)", bstrOf(a.T), bstrOf(b.T)))}, nil
	})
	reg("strings::HasPrefix", "uninterpreted predicate has_prefix", func(e *Engine, st *State, fr *Frame, args []Val, fn *ssa.Function, c *ssa.CallCommon) ([]Val, []*State) {
		e.C.DeclareFun("has_prefix", []Sort{SStr, SStr}, SBool)
		return []Val{mkBool(fmt.Sprintf("(has_prefix %s %s)", args[0].(*Term).T, args[1].(*Term).T))}, nil
	})
	reg("strings::TrimSpace", "uninterpreted function trim_space; trim_space(s) == \"\" is what callers test", func(e *Engine, st *State, fr *Frame, args []Val, fn *ssa.Function, c *ssa.CallCommon) ([]Val, []*State) {
		e.C.DeclareFun("trim_space", []Sort{SStr}, SStr)
		return []Val{mk(SStr, "(trim_space "+args[0].(*Term).T+")")}, nil
	})
	reg("cosmossdk.io/store/prefix::NewStore", "a store whose keys are prefix ++ key inside the parent", func(e *Engine, st *State, fr *Frame, args []Val, fn *ssa.Function, c *ssa.CallCommon) ([]Val, []*State) {
		parent, ok := args[0].(*StoreHandleV)
		if !ok {
			unsupported("prefix.NewStore over %s", valString(args[0]))
		}
		pfx := e.toBytesTerm(st, args[1])
		if parent.Prefix != nil || parent.Opaque != nil {
			unsupported("nested prefix stores")
		}
		if pfx.Sub == nil || pfx.Sub.Ctor != "clientPrefix" {
			// a generic prefix store: key k lives at prefixed(prefix, k) of the parent
			return []Val{&StoreHandleV{Ghost: parent.Ghost, Prefix: mk(SStr, bstrOf(pfx.T)), Kind: "prefix"}}, nil
		}
		return []Val{&StoreHandleV{Ghost: parent.Ghost, Prefix: pfx.Sub.Args[0], Kind: "client"}}, nil
	})
	reg("cosmossdk.io/store/types::KVStorePrefixIterator", "iterator over the keys with the given prefix in ascending order (opaque here)", func(e *Engine, st *State, fr *Frame, args []Val, fn *ssa.Function, c *ssa.CallCommon) ([]Val, []*State) {
		o := mk("Obj", e.C.Fresh("iter", "Obj"))
		o.GoT = fn.Signature.Results().At(0).Type()
		return []Val{o}, nil
	})

	// ---- in-repo store plumbing given a direct model (the byte-level prefix is obligation group KEYS)
	ck := repoModule + "/modules/tibc/core/02-client/keeper"
	reg(ck+"::(Keeper).ClientStore", "the client's prefix store: keys k are stored at \"clients/<chainName>/\" ++ k of the tibc store",
		func(e *Engine, st *State, fr *Frame, args []Val, fn *ssa.Function, c *ssa.CallCommon) ([]Val, []*State) {
			return []Val{&StoreHandleV{Ghost: "tibc", Prefix: args[2].(*Term), Kind: "client"}}, nil
		})

	reg(ck+"::(Keeper).RelayerStore", "the relayer registry's prefix store: key k is stored at \"relayers\" ++ k of the tibc store",
		func(e *Engine, st *State, fr *Frame, args []Val, fn *ssa.Function, c *ssa.CallCommon) ([]Val, []*State) {
			return []Val{&StoreHandleV{Ghost: "tibc", Prefix: mk(SStr, e.C.StrLit("relayers")), Kind: "relayers"}}, nil
		})
	// ---- codec (A-PROTO): marshal is an injective uninterpreted encoding per message type, unmarshal its inverse
	marshal := func(e *Engine, st *State, fr *Frame, args []Val, fn *ssa.Function, c *ssa.CallCommon) ([]Val, []*State) {
		return []Val{e.pbEncode(st, args[1])}, nil
	}
	unmarshal := func(e *Engine, st *State, fr *Frame, args []Val, fn *ssa.Function, c *ssa.CallCommon) ([]Val, []*State) {
		e.pbDecodeInto(st, e.toBytesTerm(st, args[1]), args[2])
		return nil, nil
	}
	codecI := "github.com/cosmos/cosmos-sdk/codec.BinaryCodec"
	reg("iface:"+codecI+".MustMarshal", "result == pbenc_<T>(fields...) (non-nil); pbdec field i of it is field i (A-PROTO)", marshal)
	reg("iface:"+codecI+".MustUnmarshal", "*ptr's fields become pbdec_<i>(bz) (A-PROTO); panics on malformed input are not modelled", unmarshal)
	reg("iface:github.com/cosmos/cosmos-sdk/codec.Codec.MustMarshal", "as BinaryCodec.MustMarshal", marshal)
	reg("iface:github.com/cosmos/cosmos-sdk/codec.Codec.MustUnmarshal", "as BinaryCodec.MustUnmarshal", unmarshal)
	reg("regexp::MatchString", "matched == re_match(pattern, s) (uninterpreted), err == nil for a constant pattern",
		func(e *Engine, st *State, fr *Frame, args []Val, fn *ssa.Function, c *ssa.CallCommon) ([]Val, []*State) {
			e.C.DeclareFun("re_match", []Sort{SStr, SStr}, SBool)
			return []Val{mkBool(fmt.Sprintf("(re_match %s %s)", args[0].(*Term).T, args[1].(*Term).T)), mk(SErr, e.C.Fresh("re_err", SErr))}, nil
		})
	reg("encoding/json::Marshal", "result == json_enc(v) (uninterpreted, non-nil on success); err unconstrained",
		func(e *Engine, st *State, fr *Frame, args []Val, fn *ssa.Function, c *ssa.CallCommon) ([]Val, []*State) {
			e.C.DeclareFun("json_enc", []Sort{"Obj"}, SStr)
			var o *Term
			switch x := args[0].(type) {
			case *IfaceV:
				if t, ok := x.V.(*Term); ok && t.S == "Obj" {
					o = t
				}
			case *Term:
				if x.S == "Obj" {
					o = x
				}
			}
			if o == nil {
				o = mk("Obj", e.C.Fresh("json_arg", "Obj"))
			}
			return []Val{mk(SBytes, "(mkB false (json_enc "+o.T+"))"), mk(SErr, e.C.Fresh("json_err", SErr))}, nil
		})
	reg("encoding/json::Unmarshal", "*ptr == json_dec(data) (uninterpreted; json_dec(json_enc(v)) == v); err unconstrained",
		func(e *Engine, st *State, fr *Frame, args []Val, fn *ssa.Function, c *ssa.CallCommon) ([]Val, []*State) {
			e.C.DeclareFun("json_dec", []Sort{SStr}, "Obj")
			b := e.toBytesTerm(st, args[0])
			target := args[1]
			if iv, ok := target.(*IfaceV); ok {
				target = iv.V
			}
			if p, ok := target.(*PtrV); ok && p.C != nil {
				o := mk("Obj", "(json_dec "+bstrOf(b.T)+")")
				if cur, isStruct := e.load(st, p, nil).(*StructV); isStruct {
					// decoding into a message struct: its fields are deterministic views of the decoded value
					e.store(st, p, e.structView(st, o, cur.T))
				} else {
					e.store(st, p, o)
				}
			}
			return []Val{mk(SErr, e.C.Fresh("json_err", SErr))}, nil
		})
	reg("encoding/hex::EncodeToString", "uninterpreted hex_enc(b)", func(e *Engine, st *State, fr *Frame, args []Val, fn *ssa.Function, c *ssa.CallCommon) ([]Val, []*State) {
		e.C.DeclareFun("hex_enc", []Sort{SStr}, SStr)
		return []Val{mk(SStr, "(hex_enc "+bstrOf(e.toBytesTerm(st, args[0]).T)+")")}, nil
	})
	pt := repoModule + "/modules/tibc/core/04-packet/types"
	reg(pt+"::(Acknowledgement).GetBytes", "proto encoding of the acknowledgement (A-PROTO): errAckBytes(text) for an error response, resAckBytes(result) for a result response; never empty when a response is set; the two families are disjoint",
		func(e *Engine, st *State, fr *Frame, args []Val, fn *ssa.Function, c *ssa.CallCommon) ([]Val, []*State) {
			sv, ok := args[0].(*StructV)
			if !ok {
				unsupported("GetBytes on %s", valString(args[0]))
			}
			e.C.DeclareFun("errAckBytes", []Sort{SStr}, SStr)
			e.C.DeclareFun("resAckBytes", []Sort{SStr}, SStr)
			var t string
			switch r := sv.F[0].(type) {
			case *IfaceV:
				if r.Dyn == nil {
					return []Val{mk(SBytes, "(mkB false str_empty)")}, nil
				}
				inner := e.load(st, r.V, nil).(*StructV)
				switch {
				case strings.HasSuffix(r.Dyn.String(), "Acknowledgement_Error"):
					t = "(errAckBytes " + inner.F[0].(*Term).T + ")"
				case strings.HasSuffix(r.Dyn.String(), "Acknowledgement_Result"):
					t = "(resAckBytes " + bstrOf(e.toBytesTerm(st, inner.F[0]).T) + ")"
				default:
					unsupported("acknowledgement response of type %s", r.Dyn)
				}
			default:
				unsupported("acknowledgement with opaque response")
			}
			st.assume("(not (= (slen " + t + ") #x0000000000000000))")
			st.assume("(bvsgt (slen " + t + ") #x0000000000000000)")
			return []Val{mk(SBytes, "(mkB false "+t+")")}, nil
		})

	// ---- event manager (interface EventManagerI)
	reg("iface:"+sdkTypes+".EventManagerI.EmitEvents", "events' == events ++ evs", func(e *Engine, st *State, fr *Frame, args []Val, fn *ssa.Function, c *ssa.CallCommon) ([]Val, []*State) {
		e.emit(st, args[1])
		return nil, nil
	})
	reg("iface:"+sdkTypes+".EventManagerI.EmitEvent", "events' == events ++ [ev]", func(e *Engine, st *State, fr *Frame, args []Val, fn *ssa.Function, c *ssa.CallCommon) ([]Val, []*State) {
		e.emit(st, args[1])
		return nil, nil
	})
	reg(sdkTypes+"::(*EventManager).EmitEvents", "events' == events ++ evs", externs["iface:"+sdkTypes+".EventManagerI.EmitEvents"])
	reg(sdkTypes+"::(*EventManager).EmitEvent", "events' == events ++ [ev]", externs["iface:"+sdkTypes+".EventManagerI.EmitEvent"])
}

// be64 / sha build the terms and add the ground instances of their axioms to the path, so that
// queries without quantified axioms stay complete for ground goals.
func (e *Engine) be64(st *State, x string) string {
	t := "(be64 " + x + ")"
	if !strings.Contains(x, "|q_") {
		st.assume("(= (unbe64 " + t + ") " + x + ")")
		st.assume("(= (slen " + t + ") #x0000000000000008)")
	}
	return t
}

func (e *Engine) sha(st *State, x string) string {
	t := "(sha256 " + x + ")"
	if !strings.Contains(x, "|q_") {
		st.assume("(= (slen " + t + ") #x0000000000000020)")
	}
	return t
}

type EventMgrV struct{}
type AttrV struct{ K, V *Term }

func (e *Engine) emit(st *State, evs Val) {
	if _, ok := e.W.Ghosts["events"]; !ok {
		return
	}
	e.needEvents()
	cur := st.ghost["events"]
	add := func(t *Term) { cur = mk("EvLog", fmt.Sprintf("(econs %s %s)", t.T, cur.T)) }
	switch x := evs.(type) {
	case *Term:
		if x.S == "Ev" {
			add(x)
		} else {
			cur = e.freshGhost("events")
		}
	case *SliceV:
		if !x.Nil {
			arr := e.load(st, x.Base, nil).(*ArrayV)
			for i := x.Lo; i < x.Hi; i++ {
				t, ok := arr.E[i].(*Term)
				if !ok || t.S != "Ev" {
					cur = e.freshGhost("events")
					continue
				}
				add(t)
			}
		}
	default:
		cur = e.freshGhost("events")
	}
	st.ghost["events"] = cur
}

func (e *Engine) wrapErr(st *State, inner Val) Val {
	t, ok := inner.(*Term)
	if !ok || t.S != SErr {
		if iv, ok := inner.(*IfaceV); ok && iv.Dyn == nil {
			return mk(SErr, "err_nil")
		}
		unsupported("Wrap of %s", valString(inner))
	}
	if t.T == "err_nil" {
		return t
	}
	e.mu.Lock()
	e.wrapSite++
	site := e.wrapSite
	e.mu.Unlock()
	r := mk(SErr, fmt.Sprintf("(wrap %s %d)", t.T, site))
	st.assume(fmt.Sprintf("(= (= %s err_nil) (= %s err_nil))", r.T, t.T))
	st.assume(fmt.Sprintf("(not (is_sentinel %s))", r.T))
	return r
}

func (e *Engine) timeVal(st *State, name string) Val {
	e.C.DeclareFun(name, nil, SInt)
	return &Term{S: SInt, T: name, GoT: nil}
}

// sprintf: a few literal formats are given exact meaning; anything else is an unconstrained string.
func (e *Engine) sprintf(st *State, fr *Frame, args []Val, c *ssa.CallCommon) Val {
	format := ""
	isConst := false
	if c != nil {
		if k, ok := c.Args[0].(*ssa.Const); ok && k.Value != nil {
			format = constant.StringVal(k.Value)
			isConst = true
		}
	}
	var elems []Val
	if len(args) > 1 {
		if sl, ok := args[1].(*SliceV); ok && !sl.Nil {
			arr := e.load(st, sl.Base, nil).(*ArrayV)
			elems = arr.E[sl.Lo:sl.Hi]
		}
	}
	if isConst {
		// split the format into literals and verbs %s %d %v
		var out *Term
		add := func(t *Term) {
			if out == nil {
				out = t
			} else {
				out = e.strCat(st, out, t)
			}
		}
		ai := 0
		ok := true
		lit := strings.Builder{}
		for i := 0; i < len(format) && ok; i++ {
			ch := format[i]
			if ch != '%' {
				lit.WriteByte(ch)
				continue
			}
			if i+1 >= len(format) {
				ok = false
				break
			}
			i++
			verb := format[i]
			if verb == '%' {
				lit.WriteByte('%')
				continue
			}
			if lit.Len() > 0 {
				add(mk(SStr, e.C.StrLit(lit.String())))
				lit.Reset()
			}
			if ai >= len(elems) {
				ok = false
				break
			}
			arg := elems[ai]
			ai++
			var inner Val = arg
			if iv, isI := arg.(*IfaceV); isI && iv.Dyn != nil {
				inner = iv.V
				// a named type may carry String()/Format/Error methods that change what %s/%v print: not modelled
				if nt, named := types.Unalias(iv.Dyn).(*types.Named); named && nt.NumMethods() > 0 {
					ok = false
					break
				}
				if pt, isPtr := iv.Dyn.(*types.Pointer); isPtr {
					_ = pt
					ok = false
					break
				}
			}
			switch verb {
			case 's', 'v':
				switch t := inner.(type) {
				case *Term:
					switch {
					case t.S == SStr:
						add(t)
					case t.S == SBytes && verb == 's':
						add(mk(SStr, bstrOf(t.T)))
					case t.S.BVWidth() == 64 && verb == 'v':
						add(mk(SStr, "(itoa "+t.T+")"))
					default:
						ok = false
					}
				default:
					ok = false
				}
			case 'd':
				if t, isT := inner.(*Term); isT && t.S.BVWidth() == 64 && !t.Signed {
					add(mk(SStr, "(itoa "+t.T+")"))
				} else {
					ok = false
				}
			default:
				ok = false
			}
		}
		if ok && ai == len(elems) {
			if lit.Len() > 0 {
				add(mk(SStr, e.C.StrLit(lit.String())))
			}
			if out == nil {
				out = mk(SStr, e.C.StrLit(""))
			}
			return out
		}
	}
	return mk(SStr, e.C.Fresh("sprintf", SStr))
}

// ------------------------------------------------------------------------------------------
// KVStore operations on a store handle

func (e *Engine) storeKeyTerm(st *State, h *StoreHandleV, k Val) *Term {
	b := e.toBytesTerm(st, k)
	if h.Kind == "relayers" {
		return mk(SKey, "(relayers "+bstrOf(b.T)+")")
	}
	if h.Kind == "prefix" {
		return mk(SKey, "(prefixed "+h.Prefix.T+" "+bstrOf(b.T)+")")
	}
	if h.Prefix != nil || h.Opaque != nil {
		pfx := h.Prefix
		if pfx == nil {
			pfx = h.Opaque
		}
		if b.Sub == nil {
			// raw key inside a client store
			e.C.AddKeyCtor("clientRaw", []Sort{SStr, SStr})
			return mk(SKey, fmt.Sprintf("(clientRaw %s %s)", pfx.T, bstrOf(b.T)))
		}
		var parts []string
		for _, a := range b.Sub.Args {
			parts = append(parts, a.T)
		}
		return mk(SKey, "("+b.Sub.Ctor+" "+strings.Join(append([]string{pfx.T}, parts...), " ")+")")
	}
	if b.Key != nil {
		return b.Key
	}
	return mk(SKey, "(k_raw "+bstrOf(b.T)+")")
}

func (e *Engine) storeOp(st *State, fr *Frame, h *StoreHandleV, method string, args []Val) []Val {
	g := st.ghost[h.Ghost]
	if g == nil {
		unsupported("store handle over undeclared ghost store %q", h.Ghost)
	}
	switch method {
	case "Get":
		k := e.storeKeyTerm(st, h, args[0])
		o := fmt.Sprintf("(select %s %s)", g.T, k.T)
		r := mk(SBytes, fmt.Sprintf("(mkB ((_ is none) %s) (ite ((_ is none) %s) str_empty (val %s)))", o, o, o))
		return []Val{r}
	case "Has":
		k := e.storeKeyTerm(st, h, args[0])
		return []Val{mkBool(fmt.Sprintf("((_ is some) (select %s %s))", g.T, k.T))}
	case "Set":
		k := e.storeKeyTerm(st, h, args[0])
		v := e.toBytesTerm(st, args[1])
		// Set panics on a nil value: the surviving path has a non-nil value
		st.assume("(not (bnil " + v.T + "))")
		st.ghost[h.Ghost] = mk(g.S, fmt.Sprintf("(store %s %s (some %s))", g.T, k.T, bstrOf(v.T)))
		return nil
	case "Delete":
		k := e.storeKeyTerm(st, h, args[0])
		st.ghost[h.Ghost] = mk(g.S, fmt.Sprintf("(store %s %s none)", g.T, k.T))
		return nil
	case "Iterator", "ReverseIterator":
		o := mk("Obj", e.C.Fresh("iter", "Obj"))
		return []Val{o}
	}
	unsupported("KVStore.%s", method)
	return nil
}

// freshSpecial: symbolic values for types with a dedicated representation.
func (e *Engine) freshSpecial(st *State, name string, t types.Type) Val {
	n, ok := types.Unalias(t).(*types.Named)
	if !ok || n.Obj().Pkg() == nil {
		return nil
	}
	switch n.Obj().Pkg().Path() + "." + n.Obj().Name() {
	case "cosmossdk.io/store/types.KVStore", "cosmossdk.io/core/store.KVStore":
		// a store handed in as a parameter: a client store of an unknown client
		pfx := mk(SStr, e.C.Fresh(name+"_client", SStr))
		return &StoreHandleV{Ghost: "tibc", Prefix: pfx, Kind: "client"}
	case "time.Time":
		return &Term{S: SInt, T: e.C.Fresh(name+"_ns", SInt)}
	}
	return nil
}

// pbEncode / pbDecodeInto: A-PROTO. A message type T has an uninterpreted encoder pbenc_T over its (flattened)
// fields and per-field decoders pbdec_T_i with pbdec_T_i(pbenc_T(f...)) == f_i (ground instances are added).
func (e *Engine) pbMessage(st *State, v Val) (*StructV, string) {
	if iv, ok := v.(*IfaceV); ok && iv.Dyn != nil {
		v = iv.V
	}
	if p, ok := v.(*PtrV); ok && p.C != nil {
		v = e.load(st, p, nil)
	}
	sv, ok := v.(*StructV)
	if !ok {
		unsupported("proto message %s", valString(v))
	}
	name := typeTag(sv.T)
	return sv, name
}

func (e *Engine) pbFieldTerms(st *State, sv *StructV) []*Term {
	var out []*Term
	for _, f := range sv.F {
		switch x := f.(type) {
		case *Term:
			out = append(out, x)
		case *SliceV:
			if isByteElem(x.ElemT) {
				out = append(out, e.toBytesTerm(st, x))
			} else if x.Nil {
				e.C.DeclareFun("seq_nil", nil, "Obj")
				out = append(out, mk("Obj", "seq_nil"))
			} else {
				out = append(out, mk("Obj", e.C.Fresh("seqval", "Obj")))
			}
		case *StructV:
			out = append(out, e.pbFieldTerms(st, x)...)
		default:
			out = append(out, mk("Obj", e.C.Fresh("pbfield", "Obj")))
		}
	}
	return out
}

func (e *Engine) pbEncode(st *State, msg Val) Val {
	sv, name := e.pbMessage(st, msg)
	fs := e.pbFieldTerms(st, sv)
	var sorts []Sort
	var as []string
	for _, f := range fs {
		sorts = append(sorts, f.S)
		as = append(as, f.T)
	}
	fn := "pbenc_" + name
	e.C.DeclareFun(fn, sorts, SStr)
	t := fn
	if len(as) > 0 {
		t = "(" + fn + " " + strings.Join(as, " ") + ")"
	}
	for i, f := range fs {
		d := fmt.Sprintf("pbdec_%s_%d", name, i)
		e.C.DeclareFun(d, []Sort{SStr}, f.S)
		if !strings.Contains(t, "|q_") {
			st.assume(fmt.Sprintf("(= (%s %s) %s)", d, t, f.T))
		}
	}
	return mk(SBytes, "(mkB false "+t+")")
}

func (e *Engine) pbDecodeInto(st *State, bz *Term, target Val) {
	if iv, ok := target.(*IfaceV); ok && iv.Dyn != nil {
		target = iv.V
	}
	p, ok := target.(*PtrV)
	if !ok || p.C == nil {
		unsupported("unmarshal into %s", valString(target))
	}
	sv, ok := e.load(st, p, nil).(*StructV)
	if !ok {
		unsupported("unmarshal into non-struct")
	}
	name := typeTag(sv.T)
	idx := 0
	var fill func(sv *StructV) *StructV
	fill = func(sv *StructV) *StructV {
		n := &StructV{T: sv.T}
		stt := sv.T.Underlying().(*types.Struct)
		for i := range sv.F {
			ft := stt.Field(i).Type()
			if inner, ok := sv.F[i].(*StructV); ok {
				n.F = append(n.F, fill(inner))
				continue
			}
			var s Sort
			signed := false
			switch {
			case isByteSlice(ft):
				s = SBytes
			case isBasicString(ft):
				s = SStr
			default:
				if bt, ok := ft.Underlying().(*types.Basic); ok && bt.Info()&types.IsInteger != 0 {
					w, sg := intInfo(bt)
					s, signed = BV(w), sg
				} else if ok && bt.Info()&types.IsBoolean != 0 {
					s = SBool
				} else {
					s = "Obj"
				}
			}
			d := fmt.Sprintf("pbdec_%s_%d", name, idx)
			idx++
			e.C.DeclareFun(d, []Sort{SStr}, s)
			t := &Term{S: s, T: fmt.Sprintf("(%s %s)", d, bstrOf(bz.T)), Signed: signed}
			if s == "Obj" {
				t.GoT = ft
			}
			n.F = append(n.F, t)
		}
		return n
	}
	e.store(st, p, fill(sv))
}
