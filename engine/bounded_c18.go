package main

// Bounded check C18.forks: the chain-consistency half of C18 (fork switches through RestrictChain), which no contract
// here decides. The REAL code of 09-eth/types runs (go test -overlay) with only the proof-of-work seal stubbed; the
// input space is bounded and stated: every parent-closed submission order of up to maxLen headers out of a universe
// of 8 synthetic valid descendants of one base header (three branches, fork depth up to 3). Labelled bounded.

import (
	"encoding/json"
	"fmt"
	"os"
	"os/exec"
	"path/filepath"
	"strings"
	"time"
)

func init() {
	boundedChecks["C18.forks"] = boundedC18Forks
}

const ethHeaderRel = "modules/tibc/light-clients/09-eth/types/header.go"

func boundedC18Forks(tier string, seed int, overlay map[string][]byte) BoundedResult {
	t0 := time.Now()
	maxLen := 4
	if tier == "thorough" {
		maxLen = 6
	}
	res := BoundedResult{Name: "C18.forks", Bound: fmt.Sprintf("all parent-closed submission orders (plus immediate resubmissions) of at most %d headers from a universe of 8 synthetic valid descendants of one base header: chains a1-a2-a3 and b1-b2-b3 from the base, c2-c3 from a1; fresh client per order; proof-of-work seal stubbed, everything else the real 09-eth/types code", maxLen)}
	fail := func(key, detail string) BoundedResult {
		res.Violations = append(res.Violations, BoundedViolation{Key: key, Detail: detail})
		res.WallS = time.Since(t0).Seconds()
		return res
	}
	dir, err := os.MkdirTemp(filepath.Join(verifDir, ".tmp"), "c18forks")
	if err != nil {
		return fail("harness", err.Error())
	}
	defer os.RemoveAll(dir)
	repo := repoDir()
	replace := map[string]string{}
	// files changed by a mutant (self-test) take part in the build
	for p, data := range overlay {
		f := filepath.Join(dir, "ov_"+sanitize(p)+".go")
		if err := os.WriteFile(f, data, 0o644); err != nil {
			return fail("harness", err.Error())
		}
		replace[p] = f
	}
	// header.go with the seal check stubbed
	hdrPath := filepath.Join(repo, ethHeaderRel)
	src, ok := overlay[hdrPath]
	if !ok {
		src, err = os.ReadFile(hdrPath)
		if err != nil {
			return fail("harness", err.Error())
		}
	}
	s := string(src)
	i := strings.Index(s, "func verifyCascadingFields(header Header) error {")
	if i < 0 {
		return fail("harness", "verifyCascadingFields not found in "+ethHeaderRel+": the seal stub cannot be applied")
	}
	j := strings.Index(s[i:], "\n}\n")
	if j < 0 {
		return fail("harness", "end of verifyCascadingFields not found")
	}
	patched := s[:i] + "func verifyCascadingFields(header Header) error {\n\t_ = ioutil.Discard\n\t_ = os.Getpid\n\treturn nil" + s[i+j:]
	hp := filepath.Join(dir, "header_sealstub.go")
	os.WriteFile(hp, []byte(patched), 0o644)
	replace[hdrPath] = hp
	testSrc, err := os.ReadFile(filepath.Join(verifDir, "bounded", "c18_forks_test.go.txt"))
	if err != nil {
		return fail("harness", err.Error())
	}
	tp := filepath.Join(dir, "zz_forks_test.go")
	os.WriteFile(tp, testSrc, 0o644)
	replace[filepath.Join(repo, filepath.Dir(ethHeaderRel), "zz_forks_bounded_test.go")] = tp
	ov, _ := json.Marshal(map[string]any{"Replace": replace})
	ovp := filepath.Join(dir, "ov.json")
	os.WriteFile(ovp, ov, 0o644)
	cmd := exec.Command("go", "test", "-overlay", ovp, "-vet=off", "-count=1", "-v", "-timeout", "900s", "-run", "TestZZForkTrees", "./"+filepath.Dir(ethHeaderRel)+"/")
	cmd.Dir = repo
	cmd.Env = append(os.Environ(), "GOFLAGS=-mod=mod", "GOPROXY=off", "GOSUMDB=off", "GOTOOLCHAIN=local", fmt.Sprintf("ZZ_MAXLEN=%d", maxLen))
	out, runErr := cmd.CombinedOutput()
	text := string(out)
	seen := false
	for _, l := range strings.Split(text, "\n") {
		switch {
		case strings.HasPrefix(l, "FORKCASES "):
			fmt.Sscanf(l, "FORKCASES %d", &res.Cases)
			seen = true
		case strings.HasPrefix(l, "FORKVIOL "):
			rest := strings.TrimPrefix(l, "FORKVIOL ")
			key := strings.SplitN(rest, " ", 2)[0]
			res.Violations = append(res.Violations, BoundedViolation{Key: key, Detail: "bounded check C18.forks: violated oracle and class, number of failing histories, shortest failing histories (headers submitted in this order to a fresh client; the last one is where the oracle fails):\n  " + rest + "\n\nuniverse: base r; a1-a2-a3 and b1-b2-b3 from r; c2-c3 from a1. re-run: tibcvc check C18 (go test -overlay with bounded/c18_forks_test.go.txt, seal stubbed)\n"})
		}
	}
	if !seen {
		tail := text
		if len(tail) > 3000 {
			tail = tail[len(tail)-3000:]
		}
		return fail("harness", fmt.Sprintf("the bounded test did not run to completion (%v):\n%s", runErr, tail))
	}
	res.WallS = time.Since(t0).Seconds()
	return res
}
