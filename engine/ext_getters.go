package main

// Generated proto getters of external data structs that are modelled field by field (GetX returns field X).

import (
	"go/types"
	"strings"

	"golang.org/x/tools/go/ssa"
)

func (e *Engine) externalGetter(st *State, fn *ssa.Function, args []Val) ([]Val, bool) {
	if fn == nil || fn.Blocks != nil || fn.Signature.Recv() == nil || !strings.HasPrefix(fn.Name(), "Get") || len(args) != 1 {
		return nil, false
	}
	pt, ok := fn.Signature.Recv().Type().(*types.Pointer)
	if !ok || !e.transparentStruct(pt.Elem()) {
		return nil, false
	}
	stt := pt.Elem().Underlying().(*types.Struct)
	want := strings.TrimPrefix(fn.Name(), "Get")
	for i := 0; i < stt.NumFields(); i++ {
		if stt.Field(i).Name() == want {
			p, ok := args[0].(*PtrV)
			if !ok || p.C == nil {
				return nil, false
			}
			sv, ok := e.load(st, p, nil).(*StructV)
			if !ok {
				return nil, false
			}
			e.usedExterns["generated getter "+fn.String()+" (returns the field)"] = true
			return []Val{sv.F[i]}, true
		}
	}
	return nil, false
}
