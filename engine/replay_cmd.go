package main

// `tibcvc replay <file>`: re-decides what a replay file records, on /repo's current tree.
//   - a bounded-check violation: the bounded check is run again (the real code on the recorded class of inputs) and the
//     command reports whether that case still fails;
//   - a failed proof obligation: the function (or lemma) it belongs to is verified again and the command reports whether
//     the obligation discharges now. (There is no model-to-test replay in this tool: see DESIGN.md §12.2.)
// Exit code 1 when the violation is still there, 0 when it is gone.
// `tibcvc selftest [prefix]` runs the must-fail corpus (scripts/selftest.sh).

import (
	"fmt"
	"os"
	"os/exec"
	"path/filepath"
	"regexp"
	"strings"
)

func cmdSelftestImpl(args []string) {
	cmd := exec.Command(filepath.Join(verifDir, "scripts", "selftest.sh"), args...)
	cmd.Stdout, cmd.Stderr = os.Stdout, os.Stderr
	if err := cmd.Run(); err != nil {
		os.Exit(1)
	}
}

func cmdReplayImpl(args []string) {
	if len(args) != 1 {
		fatalf("usage: tibcvc replay <replay file>")
	}
	data, err := os.ReadFile(args[0])
	if err != nil {
		fatalf("%v", err)
	}
	text := string(data)
	fmt.Print(text)
	if !strings.HasSuffix(text, "\n") {
		fmt.Println()
	}
	fmt.Println("---- re-run on the current tree ----")
	if m := regexp.MustCompile(`(?m)^bounded check ([A-Za-z0-9_.]+)`).FindStringSubmatch(text); m != nil {
		name := m[1]
		key := ""
		if k := regexp.MustCompile(`(?m)^\s+(\S+)`).FindStringSubmatch(text[strings.Index(text, m[0])+len(m[0]):]); k != nil {
			key = k[1]
		}
		r := runBounded(name, "quick", 0, nil)
		for _, v := range r.Violations {
			if key == "" || v.Key == key {
				fmt.Printf("STILL FAILS: bounded check %s, case %s\n%s\n", name, v.Key, v.Detail)
				os.Exit(1)
			}
		}
		fmt.Printf("gone: bounded check %s no longer reports case %s (%d cases run)\n", name, key, r.Cases)
		return
	}
	m := regexp.MustCompile(`(?m)^obligation: (\S+)`).FindStringSubmatch(text)
	if m == nil {
		fatalf("no obligation or bounded check named in %s", args[0])
	}
	obl := m[1]
	if strings.HasPrefix(obl, "inventory:") {
		fmt.Println("inventory findings are re-decided by the check itself: run tibcvc check <property>")
		os.Exit(1)
	}
	w, err := LoadWorld(repoDir(), loadPatterns, nil, filepath.Join(verifDir, "specs"))
	if err != nil {
		fatalf("load: %v", err)
	}
	e := NewEngine(w)
	e.TimeoutS = 30
	e.TmpDir = newTmpDir()
	defer os.RemoveAll(e.TmpDir)
	fn := strings.SplitN(obl, "#", 2)[0]
	if strings.HasPrefix(fn, "lemma.") {
		l := w.Lemmas[strings.TrimPrefix(fn, "lemma.")]
		if l == nil {
			fatalf("lemma %s not found", fn)
		}
		e.RunLemma(l)
	} else {
		key := ""
		for k := range w.Contract {
			if shortKey(k) == fn {
				key = k
			}
		}
		if key == "" {
			fatalf("no contract for %s", fn)
		}
		e.VerifyFunc(key)
	}
	e.Discharge(16)
	for _, g := range e.Groups() {
		if g.Name == obl {
			if g.Status == "discharged" {
				fmt.Printf("gone: %s discharges on the current tree\n", obl)
				return
			}
			fmt.Printf("STILL FAILS: %s status=%s\n", obl, g.Status)
			os.Exit(1)
		}
	}
	fmt.Printf("obligation %s is no longer generated (contract changed?)\n", obl)
	os.Exit(1)
}
