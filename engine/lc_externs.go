package main

// Models for small in-repo leaves and codec calls used by the light clients.

import (
	"fmt"

	"golang.org/x/tools/go/ssa"
)

func init() {
	ct := repoModule + "/modules/tibc/core/02-client/types"
	reg(ct+"::(Height).Compare", "lexicographic unsigned comparison of (RevisionNumber, RevisionHeight): -1 / 0 / 1 (the body does the same through big.Int); panics on a foreign Height type",
		func(e *Engine, st *State, fr *Frame, a []Val, fn *ssa.Function, c *ssa.CallCommon) ([]Val, []*State) {
			h, ok := a[0].(*StructV)
			if !ok {
				unsupported("Height.Compare on %s", valString(a[0]))
			}
			var o *StructV
			switch x := a[1].(type) {
			case *IfaceV:
				if sv, ok := x.V.(*StructV); ok && x.Dyn != nil {
					o = sv
				}
			case *StructV:
				o = x
			}
			if o == nil {
				unsupported("Height.Compare against %s (not a concrete clienttypes.Height)", valString(a[1]))
			}
			r1, h1 := h.F[0].(*Term).T, h.F[1].(*Term).T
			r2, h2 := o.F[0].(*Term).T, o.F[1].(*Term).T
			lt := fmt.Sprintf("(or (bvult %s %s) (and (= %s %s) (bvult %s %s)))", r1, r2, r1, r2, h1, h2)
			eq := fmt.Sprintf("(and (= %s %s) (= %s %s))", r1, r2, h1, h2)
			return []Val{mkBV(64, fmt.Sprintf("(ite %s #xffffffffffffffff (ite %s #x0000000000000000 #x0000000000000001))", lt, eq), true)}, nil
		})
	unmarshalErr := func(e *Engine, st *State, fr *Frame, a []Val, fn *ssa.Function, c *ssa.CallCommon) ([]Val, []*State) {
		bz := e.toBytesTerm(st, a[1])
		e.pbDecodeInto(st, bz, a[2])
		sv, name := e.pbMessage(st, a[2])
		_ = sv
		v := "pb_valid_" + name
		e.C.DeclareFun(v, []Sort{SStr}, SBool)
		er := mk(SErr, e.C.Fresh("unmarshal_err", SErr))
		st.assume(fmt.Sprintf("(= (= %s err_nil) (%s %s))", er.T, v, bstrOf(bz.T)))
		return []Val{er}, nil
	}
	reg("iface:github.com/cosmos/cosmos-sdk/codec.BinaryCodec.Unmarshal", "*ptr's fields become pbdec_<i>(bz); err == nil <==> pb_valid_<T>(bz) (A-PROTO)", unmarshalErr)
	reg("iface:github.com/cosmos/cosmos-sdk/codec.Codec.Unmarshal", "as BinaryCodec.Unmarshal", unmarshalErr)
}
