package main

// math/big integers as mathematical integers (SMT Int) where the code computes with them (EIP-1559 base fee):
// a *big.Int made by new(big.Int) is a heap cell holding an Int term; the arithmetic methods read their operands'
// values, write the receiver's cell and return the receiver (aliasing of receiver and result is exact; operands are read
// before the receiver is written, as in math/big). Opaque big integers (parsed from strings, constants) have the value
// big_val(o): Int; big_val(big_of(x)) is the signed value of x. Division is Euclidean (math/big Div == SMT-LIB div for
// a non-zero divisor); a zero divisor panics, so the surviving path has a non-zero one.

import (
	"fmt"
	"strings"

	"golang.org/x/tools/go/ssa"
)

func signedIntOfBV(x string) string {
	return fmt.Sprintf("(ite (bvslt %s #x0000000000000000) (- (bv2nat %s) 18446744073709551616) (bv2nat %s))", x, x, x)
}

var knownBigGlobals = map[string]string{
	"go_ethereum_common_Big0": "0", "go_ethereum_common_Big1": "1", "go_ethereum_common_Big2": "2", "go_ethereum_common_Big3": "3",
	"go_ethereum_common_Big32": "32", "go_ethereum_common_Big256": "256", "go_ethereum_common_Big257": "257",
}

// bigIntOf: the Int term for the value of a *big.Int, or false when v is not a big integer known to the model.
func (e *Engine) bigIntOf(st *State, v Val) (string, bool) {
	p, ok := v.(*PtrV)
	if !ok {
		return "", false
	}
	if p.C != nil && len(p.Path) == 0 {
		switch c := st.heap[p.C.ID].(type) {
		case *Term:
			if c.S == SInt {
				return c.T, true
			}
			if c.S == "Obj" && strings.Contains(c.T, "zero_") {
				return "0", true // new(big.Int)
			}
		}
		return "", false
	}
	if p.Opaque != nil && p.Opaque.S == "Obj" {
		t := p.Opaque.T
		if arg, ok := bigOfArg(t); ok {
			return signedIntOfBV(arg), true
		}
		for k, val := range knownBigGlobals {
			if strings.Contains(t, k+"|") {
				return val, true
			}
		}
		e.C.DeclareFun("big_val", []Sort{"Obj"}, SInt)
		return "(big_val " + t + ")", true
	}
	return "", false
}

func (e *Engine) setBigCell(st *State, recv Val, val string, what string) Val {
	p, ok := recv.(*PtrV)
	if !ok || p.C == nil || len(p.Path) != 0 {
		unsupported("%s: receiver %s is not a big.Int made by new(big.Int) (mutation of shared big integers is not modelled)", what, valString(recv))
	}
	st.heap[p.C.ID] = &Term{S: SInt, T: val}
	return recv
}

func init() {
	bin := func(name, op string, nonzeroDivisor bool) {
		reg("math/big::(*Int)."+name, "z."+name+"(x, y): z := x "+op+" y over mathematical integers; returns z (see bigint_model.go)", func(e *Engine, st *State, fr *Frame, a []Val, fn *ssa.Function, c *ssa.CallCommon) ([]Val, []*State) {
			x, okx := e.bigIntOf(st, a[1])
			y, oky := e.bigIntOf(st, a[2])
			if !okx || !oky {
				unsupported("big.Int.%s on %s, %s", name, valString(a[1]), valString(a[2]))
			}
			if nonzeroDivisor {
				st.assume("(not (= " + y + " 0))")
			}
			return []Val{e.setBigCell(st, a[0], fmt.Sprintf("(%s %s %s)", op, x, y), "big.Int."+name)}, nil
		})
	}
	bin("Mul", "*", false)
	bin("Add", "+", false)
	bin("Div", "div", true)
	reg("math/big::(*Int).Sub", "z.Sub(x, y): z := x - y over mathematical integers, returns z; for two opaque constants the result is the opaque big_sub(x, y) (difficulty bomb delay)", func(e *Engine, st *State, fr *Frame, a []Val, fn *ssa.Function, c *ssa.CallCommon) ([]Val, []*State) {
		if p, ok := a[1].(*PtrV); ok && p.Opaque != nil {
			if q, ok := a[2].(*PtrV); ok && q.Opaque != nil {
				e.C.DeclareFun("big_sub", []Sort{"Obj", "Obj"}, "Obj")
				return []Val{&PtrV{Opaque: mk("Obj", fmt.Sprintf("(big_sub %s %s)", p.Opaque.T, q.Opaque.T))}}, nil
			}
		}
		x, okx := e.bigIntOf(st, a[1])
		y, oky := e.bigIntOf(st, a[2])
		if !okx || !oky {
			unsupported("big.Int.Sub on %s, %s", valString(a[1]), valString(a[2]))
		}
		return []Val{e.setBigCell(st, a[0], fmt.Sprintf("(- %s %s)", x, y), "big.Int.Sub")}, nil
	})
	reg("math/big::(*Int).SetUint64", "z := x (unsigned), returns z", func(e *Engine, st *State, fr *Frame, a []Val, fn *ssa.Function, c *ssa.CallCommon) ([]Val, []*State) {
		return []Val{e.setBigCell(st, a[0], "(bv2nat "+a[1].(*Term).T+")", "big.Int.SetUint64")}, nil
	})
	reg("math/big::(*Int).Set", "z := x, returns z (a nil x panics: the surviving path has a non-nil one)", func(e *Engine, st *State, fr *Frame, a []Val, fn *ssa.Function, c *ssa.CallCommon) ([]Val, []*State) {
		if o := opaqueOf(a[1]); o != nil {
			e.C.DeclareFun("obj_nil", []Sort{"Obj"}, SBool)
			st.assume("(not (obj_nil " + o.T + "))")
		}
		x, ok := e.bigIntOf(st, a[1])
		if !ok {
			unsupported("big.Int.Set from %s", valString(a[1]))
		}
		return []Val{e.setBigCell(st, a[0], x, "big.Int.Set")}, nil
	})
	reg("github.com/ethereum/go-ethereum/common/math::BigMax", "a fresh big integer holding max(x, y) (ASSUMED: the result is only read, never mutated, so that it being x or y itself does not matter)", func(e *Engine, st *State, fr *Frame, a []Val, fn *ssa.Function, c *ssa.CallCommon) ([]Val, []*State) {
		x, okx := e.bigIntOf(st, a[0])
		y, oky := e.bigIntOf(st, a[1])
		if !okx || !oky {
			unsupported("math.BigMax on %s, %s", valString(a[0]), valString(a[1]))
		}
		cell := st.newCell("bigmax")
		st.heap[cell.ID] = &Term{S: SInt, T: fmt.Sprintf("(ite (< %s %s) %s %s)", x, y, y, x)}
		return []Val{&PtrV{C: cell, T: fn.Signature.Results().At(0).Type()}}, nil
	})
	oldCmp := externs["math/big::(*Int).Cmp"]
	reg("math/big::(*Int).Cmp", "-1/0/1 by comparison of the mathematical values; two opaque integers additionally go through the uninterpreted big_cmp, tied to big_val", func(e *Engine, st *State, fr *Frame, a []Val, fn *ssa.Function, c *ssa.CallCommon) ([]Val, []*State) {
		x, okx := e.bigIntOf(st, a[0])
		y, oky := e.bigIntOf(st, a[1])
		if !okx || !oky {
			unsupported("big.Int.Cmp on %s, %s", valString(a[0]), valString(a[1]))
		}
		byVal := fmt.Sprintf("(ite (< %s %s) #xffffffffffffffff (ite (= %s %s) #x0000000000000000 #x0000000000000001))", x, y, x, y)
		if opaqueOf(a[0]) != nil && opaqueOf(a[1]) != nil {
			rs, _ := oldCmp(e, st, fr, a, fn, c)
			r := rs[0].(*Term)
			st.assume("(= " + r.T + " " + byVal + ")")
			return rs, nil
		}
		for _, v := range a[:2] {
			if o := opaqueOf(v); o != nil {
				e.C.DeclareFun("obj_nil", []Sort{"Obj"}, SBool)
				st.assume("(not (obj_nil " + o.T + "))")
			}
		}
		return []Val{mkBV(64, byVal, true)}, nil
	})
}
