package main

import (
	"fmt"
	"strings"
)

// Contract-language access to maps: mapdom(m, k), mapval(m, k), visited(k) (the visited set of the map iteration of the
// current loop).
func (e *Engine) mapBuiltin(env *Env, x *Expr) (Val, bool) {
	switch x.Name {
	case "bigof":
		e.C.DeclareFun("big_of", []Sort{BV(64)}, "Obj")
		return mk("Obj", "(big_of "+e.coerceTo(env, e.evalExpr(env, x.Args[0]), BV(64)).T+")"), true
	case "zeroarr":
		// the all-zero byte array of the given length (what a zero value of [n]byte denotes)
		n, ok := e.evalExpr(env, x.Args[0]).(*Term)
		if !ok || n.S != "NumLit" {
			unsupported("zeroarr(<literal>)")
		}
		name := "zero_arr_" + n.T
		e.C.DeclareFun(name, nil, SStr)
		return mk(SStr, name), true
	case "addr20":
		return mk(SStr, e.addr20(env.st, e.coerceTo(env, e.evalExpr(env, x.Args[0]), SStr).T)), true
	case "pack":
		if len(x.Args) != 1 {
			unsupported("pack(x)")
		}
		return e.packVal(env.st, e.evalExpr(env, x.Args[0])), true
	case "bignumok", "bigparse":
		// decimal big-integer strings: big.Int.SetString(s, 10)
		e.C.DeclareFun("big_num_ok", []Sort{SStr, BV(64)}, SBool)
		e.C.DeclareFun("big_parse", []Sort{SStr, BV(64)}, "Obj")
		s := e.coerceTo(env, e.evalExpr(env, x.Args[0]), SStr)
		if x.Name == "bignumok" {
			return mkBool("(big_num_ok " + s.T + " #x000000000000000a)"), true
		}
		return mk("Obj", "(big_parse "+s.T+" #x000000000000000a)"), true
	case "nat":
		// the unsigned value of a machine integer as a mathematical integer
		x := e.coerceTo(env, e.evalExpr(env, x.Args[0]), BV(64))
		return mk(SInt, "(bv2nat "+x.T+")"), true
	case "bigval":
		// the mathematical value of a *big.Int (see bigint_model.go)
		v := e.evalExpr(env, x.Args[0])
		if t, ok := e.bigIntOf(env.st, v); ok {
			return mk(SInt, t), true
		}
		o := e.coerceTo(env, v, "Obj")
		if arg, ok := bigOfArg(o.T); ok {
			return mk(SInt, signedIntOfBV(arg)), true
		}
		e.C.DeclareFun("big_val", []Sort{"Obj"}, SInt)
		return mk(SInt, "(big_val "+o.T+")"), true
	case "imul", "idiv", "iadd", "isub", "imax":
		a := e.coerceTo(env, e.evalExpr(env, x.Args[0]), SInt)
		b := e.coerceTo(env, e.evalExpr(env, x.Args[1]), SInt)
		switch x.Name {
		case "imax":
			return mk(SInt, fmt.Sprintf("(ite (< %s %s) %s %s)", a.T, b.T, b.T, a.T)), true
		}
		op := map[string]string{"imul": "*", "idiv": "div", "iadd": "+", "isub": "-"}[x.Name]
		return mk(SInt, fmt.Sprintf("(%s %s %s)", op, a.T, b.T)), true
	case "calcdiff":
		// the prescribed difficulty: calc_difficulty(time, pack(parent), bombDelayFromParent) (eth_c18_externs.go)
		e.C.DeclareFun("calc_difficulty", []Sort{BV(64), "Obj", "Obj"}, "Obj")
		t := e.coerceTo(env, e.evalExpr(env, x.Args[0]), BV(64))
		p := e.coerceTo(env, e.evalExpr(env, x.Args[1]), "Obj")
		b := e.coerceTo(env, e.evalExpr(env, x.Args[2]), "Obj")
		return mk("Obj", fmt.Sprintf("(calc_difficulty %s %s %s)", t.T, p.T, b.T)), true
	case "bigu64":
		e.C.DeclareFun("big_u64", []Sort{"Obj"}, BV(64))
		a := e.coerceTo(env, e.evalExpr(env, x.Args[0]), "Obj")
		return mkBV(64, "(big_u64 "+a.T+")", false), true
	case "bigsub":
		e.C.DeclareFun("big_sub", []Sort{"Obj", "Obj"}, "Obj")
		a := e.coerceTo(env, e.evalExpr(env, x.Args[0]), "Obj")
		b := e.coerceTo(env, e.evalExpr(env, x.Args[1]), "Obj")
		return mk("Obj", fmt.Sprintf("(big_sub %s %s)", a.T, b.T)), true
	case "bigcmp":
		e.C.DeclareFun("big_cmp", []Sort{"Obj", "Obj"}, BV(64))
		a := e.coerceTo(env, e.evalExpr(env, x.Args[0]), "Obj")
		b := e.coerceTo(env, e.evalExpr(env, x.Args[1]), "Obj")
		return mkBV(64, fmt.Sprintf("(big_cmp %s %s)", a.T, b.T), true), true
	case "anyenc":
		e.C.DeclareFun("any_enc", []Sort{"Obj"}, SStr)
		o := e.coerceTo(env, e.evalExpr(env, x.Args[0]), "Obj")
		return mk(SStr, "(any_enc "+o.T+")"), true
	case "anydec", "anyok":
		e.C.DeclareFun("any_dec", []Sort{SStr}, "Obj")
		e.C.DeclareFun("any_ok", []Sort{SStr}, SBool)
		s := e.coerceTo(env, e.evalExpr(env, x.Args[0]), SStr)
		if x.Name == "anyok" {
			return mkBool("(any_ok " + s.T + ")"), true
		}
		return mk("Obj", "(any_dec "+s.T+")"), true
	case "seqbytes":
		// element i of an opaque sequence of byte slices ([][]byte)
		e.C.DeclareFun("seq_bytes", []Sort{"Obj", BV(64)}, SBytes)
		s := e.coerceTo(env, e.evalExpr(env, x.Args[0]), "Obj")
		i := e.coerceTo(env, e.evalExpr(env, x.Args[1]), BV(64))
		return mk(SBytes, fmt.Sprintf("(seq_bytes %s %s)", s.T, i.T)), true
	case "card":
		// the cardinality of a finite set given as (Array K Bool): what len() of a map with that domain returns
		s, ok := e.evalExpr(env, x.Args[0]).(*Term)
		if !ok || !strings.HasPrefix(string(s.S), "(Array ") {
			unsupported("card(set)")
		}
		name := "map_card_" + sanitize(string(s.S))
		e.C.DeclareFun(name, []Sort{s.S}, BV(64))
		return mkBV(64, "("+name+" "+s.T+")", true), true
	case "emptyset":
		// emptyset(sortname): the empty set of that element sort
		ds := Sort(fmt.Sprintf("(Array %s Bool)", e.sortByName(x.Args[0].String())))
		return mk(ds, fmt.Sprintf("((as const %s) false)", ds)), true
	case "domset", "valmap":
		// the domain of a map as a set (Array K Bool) / its values as (Array K V)
		m, ok := e.evalExpr(env, x.Args[0]).(*MapV)
		if !ok {
			unsupported("%s: argument is not a map", x.Name)
		}
		ms := e.mapState(env.st, m)
		if ms == nil {
			unsupported("%s: map contents are untracked", x.Name)
		}
		if x.Name == "domset" {
			return ms.Dom, true
		}
		return ms.Val, true
	case "mapdom", "mapval":
		if len(x.Args) != 2 {
			unsupported("%s(map, key)", x.Name)
		}
		m, ok := e.evalExpr(env, x.Args[0]).(*MapV)
		if !ok {
			unsupported("%s: first argument is not a map", x.Name)
		}
		ms := e.mapState(env.st, m)
		if ms == nil {
			unsupported("%s: map contents are untracked", x.Name)
		}
		ks, vs := arraySorts(ms.Val.S)
		k := e.coerceTo(env, e.evalExpr(env, x.Args[1]), ks)
		if x.Name == "mapdom" {
			return mkBool(fmt.Sprintf("(select %s %s)", ms.Dom.T, k.T)), true
		}
		return &Term{S: vs, T: fmt.Sprintf("(select %s %s)", ms.Val.T, k.T)}, true
	case "visited":
		if env.fr == nil || len(env.fr.mapIters) == 0 {
			unsupported("visited(k) outside a map iteration")
		}
		it := env.fr.mapIters[len(env.fr.mapIters)-1]
		vis := env.st.heap[it.Visited.ID].(*Term)
		ks, _ := arraySorts(vis.S)
		k := e.coerceTo(env, e.evalExpr(env, x.Args[0]), ks)
		return mkBool(fmt.Sprintf("(select %s %s)", vis.T, k.T)), true
	}
	return nil, false
}
