package main

// Bounded stand-ins: checks of real functions over an explicitly bounded input space. They are labelled
// bounded in the evidence and never counted as discharged obligations.

import (
	"fmt"
)

type BoundedViolation struct {
	Key    string
	Detail string
}

type BoundedResult struct {
	Name       string
	Bound      string
	Cases      int
	Violations []BoundedViolation
	WallS      float64
}

type boundedFn func(tier string, seed int, overlay map[string][]byte) BoundedResult

var boundedChecks = map[string]boundedFn{}

func runBounded(name, tier string, seed int, overlay map[string][]byte) BoundedResult {
	f, ok := boundedChecks[name]
	if !ok {
		return BoundedResult{Name: name, Bound: "unknown bounded check", Violations: []BoundedViolation{{Key: "missing", Detail: fmt.Sprintf("bounded check %q is not implemented", name)}}}
	}
	return f(tier, seed, overlay)
}
