package main

// Call handling: builtins, static calls (extern spec / key builder / contract / inline / noise / havoc),
// interface invokes (devirtualised, interface-method contract, store handle), closures; loop cutting.

import (
	"fmt"
	"go/types"
	"strings"

	"golang.org/x/tools/go/ssa"
)

func (e *Engine) bindResult(fr *Frame, to ssa.Value, rs []Val) {
	if to == nil {
		return
	}
	switch len(rs) {
	case 0:
		fr.regs[to] = TupleV{}
	case 1:
		fr.regs[to] = rs[0]
	default:
		fr.regs[to] = TupleV(rs)
	}
}

func (e *Engine) doCall(st *State, fr *Frame, in *ssa.Call) ([]*State, *Outcome) {
	c := in.Common()
	var args []Val
	for _, a := range c.Args {
		args = append(args, e.eval(st, fr, a))
	}
	if c.IsInvoke() {
		recv := e.eval(st, fr, c.Value)
		return e.invoke(st, fr, c, recv, args, in)
	}
	switch callee := c.Value.(type) {
	case *ssa.Builtin:
		e.bindResult(fr, in, []Val{e.builtin(st, fr, callee, args, c)})
		return nil, nil
	case *ssa.Function:
		return e.callStatic(st, fr, callee, args, in, c)
	case *ssa.MakeClosure:
		cl := e.eval(st, fr, callee).(*ClosureV)
		e.pushFrame(st, cl.Fn, args, cl.Bind, in)
		return nil, nil
	}
	fv := e.eval(st, fr, c.Value)
	switch f := fv.(type) {
	case *ClosureV:
		if h, ok := externs[FuncKey(f.Fn)]; ok {
			// an anonymous function with an assumed specification (bound variables are passed after the arguments)
			e.usedExterns[FuncKey(f.Fn)] = true
			rs, _ := h(e, st, fr, append(append([]Val{}, args...), f.Bind...), f.Fn, c)
			e.bindResult(fr, in, rs)
			return nil, nil
		}
		e.pushFrame(st, f.Fn, args, f.Bind, in)
		return nil, nil
	case *FuncV:
		return e.callStatic(st, fr, f.Fn, args, in, c)
	}
	// call through an opaque function value (callback parameter): interface-style contract by parameter name
	if ok := e.callOpaqueFunc(st, fr, c, fv, args, in); ok {
		return nil, nil
	}
	e.havocCall(st, fr, fmt.Sprintf("call through function value %s (%s) in %s", c.Value.Name(), valString(fv), fr.fn.Name()), c.Signature().Results(), in)
	return nil, nil
}

func (e *Engine) callOpaqueFunc(st *State, fr *Frame, c *ssa.CallCommon, fv Val, args []Val, in ssa.Value) bool {
	// a package-level function variable (e.g. `var IsValidID = regexp.MustCompile(...).MatchString`): an assumed
	// contract may be registered under the variable's name
	if u, ok := c.Value.(*ssa.UnOp); ok {
		if g, ok := u.X.(*ssa.Global); ok {
			key := g.Pkg.Pkg.Path() + "::" + g.Name()
			if h, ok := externs[key]; ok {
				e.usedExterns[key] = true
				rs, _ := h(e, st, fr, args, nil, c)
				e.bindResult(fr, in, rs)
				return true
			}
		}
	}
	return false
}

func (e *Engine) builtin(st *State, fr *Frame, b *ssa.Builtin, args []Val, c *ssa.CallCommon) Val {
	switch b.Name() {
	case "len", "cap":
		switch x := args[0].(type) {
		case *Term:
			switch x.S {
			case SStr:
				return e.strLen(st, x.T)
			case SBytes:
				return e.strLen(st, bstrOf(x.T))
			case "Obj":
				return e.seqLen(st, x)
			}
		case *SliceV:
			if x.Nil {
				return mkBV(64, bvLit(0, 64), true)
			}
			return mkBV(64, bvLit(uint64(x.Hi-x.Lo), 64), true)
		case *ArrayV:
			return mkBV(64, bvLit(uint64(len(x.E)), 64), true)
		case *MapV:
			return e.mapLen(st, x)
		case *PtrV:
			if x.C != nil {
				if a, ok := e.load(st, x, nil).(*ArrayV); ok {
					return mkBV(64, bvLit(uint64(len(a.E)), 64), true)
				}
			}
		}
		unsupported("len of %s", valString(args[0]))
	case "append":
		return e.appendVals(st, fr, args, c)
	case "copy":
		st.notes = append(st.notes, "copy() treated as opaque in "+fr.fn.Name())
		return mkBV(64, e.C.Fresh("copied", BV(64)), true)
	case "ssa:wrapnilchk":
		// wrapnilchk(ptr, recvType, method) returns ptr, panicking if it is nil
		if p, ok := args[0].(*PtrV); ok && p.Nil {
			panic(&NilDeref{"nil receiver in method wrapper"})
		}
		return args[0]
	case "print", "println":
		return TupleV{}
	case "delete":
		return TupleV{}
	case "min", "max":
		x, y := args[0].(*Term), args[1].(*Term)
		cmp := "bvule"
		if x.Signed {
			cmp = "bvsle"
		}
		if b.Name() == "max" {
			x, y = y, x
		}
		return &Term{S: x.S, T: fmt.Sprintf("(ite (%s %s %s) %s %s)", cmp, x.T, y.T, x.T, y.T), Signed: x.Signed}
	}
	unsupported("builtin %s", b.Name())
	return nil
}

func (e *Engine) seqLen(st *State, x *Term) *Term {
	e.C.DeclareFun("seq_len", []Sort{"Obj"}, BV(64))
	l := mkBV(64, "(seq_len "+x.T+")", true)
	st.assume("(bvsge " + l.T + " #x0000000000000000)")
	return l
}

func (e *Engine) appendVals(st *State, fr *Frame, args []Val, c *ssa.CallCommon) Val {
	st0 := args[0]
	if isByteSlice(c.Args[0].Type()) {
		a := e.toBytesTerm(st, st0)
		var b *Term
		if t, ok := args[1].(*Term); ok && t.S == SStr {
			b = mk(SBytes, "(mkB false "+t.T+")") // append([]byte, string...)
		} else {
			b = e.toBytesTerm(st, args[1])
		}
		cat := e.strCat(st, mk(SStr, bstrOf(a.T)), mk(SStr, bstrOf(b.T)))
		// append(nil, empty...) stays nil; we only track content, nil-ness: nil iff both nil/empty
		r := mk(SBytes, fmt.Sprintf("(mkB (and (bnil %s) (= %s str_empty)) %s)", a.T, bstrOf(b.T), cat.T))
		return r
	}
	// concrete slices
	s0, ok0 := st0.(*SliceV)
	s1, ok1 := args[1].(*SliceV)
	if ok0 && ok1 {
		var elems []Val
		if !s0.Nil {
			arr := e.load(st, s0.Base, nil).(*ArrayV)
			elems = append(elems, arr.E[s0.Lo:s0.Hi]...)
		}
		if !s1.Nil {
			arr := e.load(st, s1.Base, nil).(*ArrayV)
			elems = append(elems, arr.E[s1.Lo:s1.Hi]...)
		}
		cell := st.newCell("append")
		st.heap[cell.ID] = &ArrayV{ElemT: s0.ElemT, E: append([]Val{}, elems...)}
		return &SliceV{Base: &PtrV{C: cell}, Lo: 0, Hi: len(elems), ElemT: s0.ElemT}
	}
	// opaque sequences: result is a fresh opaque sequence (contents untracked)
	o := mk("Obj", e.C.Fresh("appended", "Obj"))
	o.GoT = c.Args[0].Type()
	st.notes = append(st.notes, "append on opaque sequence: result untracked in "+fr.fn.Name())
	return o
}

// ------------------------------------------------------------------------------------------

func isNoisePkg(path string) bool {
	for _, p := range []string{
		"github.com/cosmos/cosmos-sdk/telemetry", "github.com/hashicorp/go-metrics", "cosmossdk.io/log",
		"github.com/armon/go-metrics", "log",
	} {
		if path == p || strings.HasPrefix(path, p+"/") {
			return true
		}
	}
	return false
}

func fnPkgPath(fn *ssa.Function) string {
	if fn.Pkg != nil {
		return fn.Pkg.Pkg.Path()
	}
	if fn.Object() != nil && fn.Object().Pkg() != nil {
		return fn.Object().Pkg().Path()
	}
	if recv := fn.Signature.Recv(); recv != nil {
		t := recv.Type()
		if p, ok := t.(*types.Pointer); ok {
			t = p.Elem()
		}
		if n, ok := t.(*types.Named); ok && n.Obj().Pkg() != nil {
			return n.Obj().Pkg().Path()
		}
	}
	if fn.Origin() != nil {
		return fnPkgPath(fn.Origin())
	}
	return ""
}

func (e *Engine) callStatic(st *State, fr *Frame, fn *ssa.Function, args []Val, in ssa.Value, c *ssa.CallCommon) ([]*State, *Outcome) {
	key := FuncKey(fn)
	// wrappers / thunks synthesised by ssa: run their bodies
	if fn.Synthetic != "" && fn.Blocks != nil && !strings.HasPrefix(fn.Synthetic, "instance of") {
		e.pushFrame(st, fn, args, nil, in)
		return nil, nil
	}
	if h, ok := externs[key]; ok {
		e.usedExterns[key] = true
		rs, forks := h(e, st, fr, args, fn, c)
		if forks != nil {
			// the extern forked the state: each fork has its own result bound already
			return forks, nil
		}
		e.bindResult(fr, in, rs)
		return nil, nil
	}
	if kf := e.W.KeyFns[strings.Replace(key, "::", ".", 1)]; kf != nil {
		e.bindResult(fr, in, []Val{e.applyKeyFn(st, kf, fn, args)})
		return nil, nil
	}
	if fc := e.W.Contract[key]; fc != nil && !e.inlineOverride[key] {
		return e.callContract(st, fr, fc, fn, key, args, in)
	}
	if rs, ok := e.generatedPbCall(st, fn, args); ok {
		e.usedExterns["generated *.pb.go "+fn.Name()+" (A-PROTO)"] = true
		e.bindResult(fr, in, rs)
		return nil, nil
	}
	if e.W.InRepo(fn) && fn.Blocks != nil {
		e.inlined[key] = true
		e.pushFrame(st, fn, args, nil, in)
		return nil, nil
	}
	if rs, ok := e.externalGetter(st, fn, args); ok {
		e.bindResult(fr, in, rs)
		return nil, nil
	}
	pp := fnPkgPath(fn)
	if isNoisePkg(pp) {
		e.noiseCalls[key] = true
		e.bindResult(fr, in, e.freshResults(st, "noise_"+fn.Name(), fn.Signature.Results()))
		return nil, nil
	}
	e.havocCall(st, fr, key, fn.Signature.Results(), in)
	return nil, nil
}

func (e *Engine) freshResults(st *State, name string, res *types.Tuple) []Val {
	var rs []Val
	for i := 0; i < res.Len(); i++ {
		rs = append(rs, e.freshVal(st, fmt.Sprintf("%s_r%d", name, i), res.At(i).Type(), 1))
	}
	return rs
}

// havocCall: an unmodelled call. Everything it could touch is forgotten: all ghost state gets fresh values.
func (e *Engine) havocCall(st *State, fr *Frame, what string, res *types.Tuple, in ssa.Value) {
	st.tainted = append(st.tainted, what)
	e.havocked[what] = true
	for _, g := range e.W.GhostOrd {
		st.ghost[g] = e.freshGhost(g)
	}
	e.bindResult(fr, in, e.freshResults(st, "havoc_"+sanitize(what), res))
}

func (e *Engine) freshGhost(g string) *Term {
	s := e.ghostSort(g)
	return mk(s, e.C.Fresh(g, s))
}

func (e *Engine) ghostSort(g string) Sort {
	return e.sortByName(e.W.Ghosts[g])
}

// ------------------------------------------------------------------------------------------
// invoke

func ifaceKeyOf(t types.Type, method string) string {
	if n, ok := types.Unalias(t).(*types.Named); ok && n.Obj().Pkg() != nil {
		return n.Obj().Pkg().Path() + "." + n.Obj().Name() + "." + method
	}
	return "." + method
}

func (e *Engine) invoke(st *State, fr *Frame, c *ssa.CallCommon, recv Val, args []Val, in ssa.Value) ([]*State, *Outcome) {
	mname := c.Method.Name()
	switch r := recv.(type) {
	case *IfaceV:
		if r.Dyn == nil {
			st.panicked = true
			st.panicMsg = "method call on nil interface in " + fr.fn.Name()
			return nil, &Outcome{St: st, Panicked: true}
		}
		fn := e.W.Prog.LookupMethod(r.Dyn, c.Method.Pkg(), mname)
		if fn == nil {
			unsupported("method %s not found on %s", mname, r.Dyn)
		}
		return e.callStatic(st, fr, fn, append([]Val{r.V}, args...), in, c)
	case *StoreHandleV:
		rs := e.storeOp(st, fr, r, mname, args)
		e.bindResult(fr, in, rs)
		return nil, nil
	case *ErrV:
		_ = r
	}
	ikey := ifaceKeyOf(c.Value.Type(), mname)
	// error.Error()
	if t, ok := recv.(*Term); ok && t.S == SErr && mname == "Error" {
		e.C.DeclareFun("err_text", []Sort{SErr}, SStr)
		e.bindResult(fr, in, []Val{mk(SStr, "(err_text "+t.T+")")})
		return nil, nil
	}
	if h, ok := externs["iface:"+ikey]; ok {
		e.usedExterns["iface:"+ikey] = true
		rs, forks := h(e, st, fr, append([]Val{recv}, args...), nil, c)
		if forks != nil {
			return forks, nil
		}
		e.bindResult(fr, in, rs)
		return nil, nil
	}
	if fc := e.W.IfaceC[ikey]; fc != nil {
		return e.callContract(st, fr, fc, nil, "iface:"+ikey, append([]Val{recv}, args...), in)
	}
	if n, ok := types.Unalias(c.Value.Type()).(*types.Named); ok && n.Obj().Pkg() != nil && isNoisePkg(n.Obj().Pkg().Path()) {
		e.noiseCalls["iface:"+ikey] = true
		e.bindResult(fr, in, e.freshResults(st, "noise_"+mname, c.Signature().Results()))
		return nil, nil
	}
	if _, ok := recv.(*NoiseV); ok {
		e.bindResult(fr, in, e.freshResults(st, "noise_"+mname, c.Signature().Results()))
		return nil, nil
	}
	e.havocCall(st, fr, "iface:"+ikey, c.Signature().Results(), in)
	return nil, nil
}

type ErrV struct{}

// ------------------------------------------------------------------------------------------
// contract-based (modular) call

func (e *Engine) callContract(st *State, fr *Frame, fc *FuncContract, fn *ssa.Function, key string, args []Val, in ssa.Value) ([]*State, *Outcome) {
	e.contractCalls[key] = true
	if fc.Flags["getter"] {
		// a pure observer of an opaque value: an uninterpreted function of the receiver and the arguments
		recv, ok := args[0].(*Term)
		if !ok {
			unsupported("getter contract %s on %s", fc.Target, valString(args[0]))
		}
		var resT types.Type
		if call, ok := in.(*ssa.Call); ok {
			if rt := call.Common().Signature().Results(); rt.Len() == 1 {
				resT = rt.At(0).Type()
			}
		}
		if resT == nil {
			unsupported("getter contract %s must have exactly one result", fc.Target)
		}
		e.bindResult(fr, in, []Val{e.ufApply(st, "get_"+shortTarget(fc.Target), resT, append([]Val{recv}, args[1:]...))})
		return nil, nil
	}
	var resTuple *types.Tuple
	var paramNames []string
	if fn != nil {
		resTuple = fn.Signature.Results()
	}
	env := e.newEnv(st, fc.Pkg)
	env.fr = nil
	// bind parameters: for methods the receiver is the first arg and is named by the receiver name in the contract
	// header only if the header lists it; by convention the header lists parameters WITHOUT the receiver and the
	// receiver is available as `self`.
	off := 0
	if fn != nil && fn.Signature.Recv() != nil {
		env.vars["self"] = args[0]
		off = 1
	} else if fn == nil {
		env.vars["self"] = args[0]
		off = 1
	}
	for i, p := range fc.Params {
		if off+i < len(args) {
			env.vars[p] = args[off+i]
			paramNames = append(paramNames, p)
		}
	}
	if len(fc.Params) != len(args)-off {
		unsupported("contract %s: %d parameters declared, call has %d", fc.Target, len(fc.Params), len(args)-off)
	}
	pre := map[string]*Term{}
	for k, v := range st.ghost {
		pre[k] = v
	}
	env.old = pre
	for _, ld := range fc.Lets {
		env.vars[ld.Name] = e.evalExpr(env, ld.E)
	}
	// requires: obligations at the call site
	for _, rq := range fc.Requires {
		g := e.evalBool(env, rq.E)
		e.oblige(st, fmt.Sprintf("%s#call:%s.%s", e.curName, shortTarget(fc.Target), rq.Label), "requires@call", g,
			fmt.Sprintf("precondition %q of %s at its call in %s: %s", rq.Label, fc.Target, fr.fn.Name(), rq.Src), fc.Props)
		st.assume(g)
	}
	// havoc what the callee may modify
	if fc.ModAll {
		for _, g := range e.W.GhostOrd {
			st.ghost[g] = e.freshGhost(g)
		}
	} else {
		for _, g := range fc.Modifies {
			if _, ok := e.W.Ghosts[g]; !ok {
				unsupported("contract %s modifies unknown ghost %q", fc.Target, g)
			}
			st.ghost[g] = e.freshGhost(g)
		}
	}
	// `mutates p`: the callee writes through pointer parameter p: its pointee gets fresh contents (described by the
	// ensures clauses, which read p after the call); pointees of other pointer parameters are left alone, which the
	// callee's own verification checks (frame.heap obligations)
	for k := range fc.Dyn {
		if !strings.HasPrefix(k, "mutates:") {
			continue
		}
		pn := strings.TrimPrefix(k, "mutates:")
		if pv, ok := env.vars[pn].(*PtrV); ok && pv.C != nil && len(pv.Path) == 0 {
			if pt, isPtr := pv.T.(*types.Pointer); isPtr {
				st.heap[pv.C.ID] = e.freshVal(st, shortTarget(fc.Target)+"_"+pn, pt.Elem(), 1)
			} else if old, isStruct := st.heap[pv.C.ID].(*StructV); isStruct {
				st.heap[pv.C.ID] = e.freshVal(st, shortTarget(fc.Target)+"_"+pn, old.T, 1)
			}
		}
	}
	// results
	var rs []Val
	if resTuple == nil && in != nil {
		// interface method: result types from the call signature
		if call, ok := in.(*ssa.Call); ok {
			resTuple = call.Common().Signature().Results()
		}
	}
	if resTuple != nil {
		for i := 0; i < resTuple.Len(); i++ {
			nm := fmt.Sprintf("%s_r%d", shortTarget(fc.Target), i)
			if i < len(fc.Results) {
				nm = shortTarget(fc.Target) + "_" + fc.Results[i]
			}
			rs = append(rs, e.freshVal(st, nm, resTuple.At(i).Type(), 1))
		}
	}
	for i, rn := range fc.Results {
		if i < len(rs) {
			if p := fc.Dyn["alias:"+rn]; p != "" {
				// `alias result = param`: the returned pointer is the argument itself (verified in the callee)
				if av, ok := env.vars[p]; ok {
					rs[i] = av
				}
			}
			env.vars[rn] = rs[i]
		}
	}
	if _, taken := env.vars["result"]; len(rs) == 1 && !taken {
		env.vars["result"] = rs[0]
	}
	for _, ld := range fc.PostLets {
		env.vars[ld.Name] = e.evalExpr(env, ld.E)
	}
	for _, en := range fc.Ensures {
		if en.Known == "trusted" {
			e.mu.Lock()
			e.trusted[shortKey(key)+"#"+en.Label+": "+en.Src] = true
			e.mu.Unlock()
		}
		if usesCallLog(en.E) {
			continue
		}
		e.assumeClause(st, env, en.E, en.Src, fc.Target, fc.Props)
	}
	rec := &CallRec{Callee: key, Short: shortTarget(fc.Target), Params: map[string]Val{}, Results: map[string]Val{}, Args: args, Rets: rs, Pre: pre, Post: map[string]*Term{}}
	for k, v := range st.ghost {
		rec.Post[k] = v
	}
	for _, p := range paramNames {
		rec.Params[p] = env.vars[p]
	}
	if v, ok := env.vars["self"]; ok {
		rec.Params["self"] = v
	}
	for i, rn := range fc.Results {
		if i < len(rs) {
			rec.Results[rn] = rs[i]
		}
	}
	st.log = append(st.log, rec)
	e.bindResult(fr, in, rs)
	return nil, nil
}

func shortTarget(t string) string {
	if i := strings.LastIndex(t, "."); i >= 0 {
		return t[i+1:]
	}
	return t
}

// ------------------------------------------------------------------------------------------
// loops

func (e *Engine) loopAt(fr *Frame, b *ssa.BasicBlock) *LoopInfo {
	for _, l := range fr.loops {
		if l.Header == b {
			return l
		}
	}
	return nil
}

// enterBlock handles arrival at a loop header. Returns handled=true when the path was forked/ended here.
func (e *Engine) enterBlock(st *State, fr *Frame) ([]*State, bool) {
	li := e.loopAt(fr, fr.block)
	if li == nil {
		return nil, false
	}
	var spec *LoopSpec
	if fr.fc != nil {
		spec = fr.fc.Loops[li.Ord]
	}
	fromInside := fr.pred != nil && li.Body[fr.pred]
	if spec == nil || (len(spec.Invs) == 0 && spec.Unroll > 0) || (spec != nil && len(spec.Invs) == 0) {
		// no invariant: bounded unrolling, reported as such
		limit := e.DefaultUnroll
		if spec != nil && spec.Unroll > 0 {
			limit = spec.Unroll
		}
		if fromInside {
			fr.unroll[li.Ord]++
			if fr.unroll[li.Ord] > limit {
				e.unrolled[fmt.Sprintf("%s loop #%d (cut after %d iterations)", FuncKey(fr.fn), li.Ord, limit)] = true
				return []*State{}, true // path abandoned: bounded
			}
		} else {
			fr.unroll[li.Ord] = 0
			e.unrolled[fmt.Sprintf("%s loop #%d (unrolled up to %d iterations, no invariant)", FuncKey(fr.fn), li.Ord, limit)] = true
		}
		return nil, false
	}
	env := e.newEnv(st, fr.fc.Pkg)
	env.fr = fr
	env.old = st.ghostOld
	e.bindContractVars(env, fr)
	base := fmt.Sprintf("%s#loop%d", e.nameOf(fr), li.Ord)
	if !fromInside {
		// establish
		e.evalPhisForNames(st, fr)
		for _, inv := range spec.Invs {
			g := e.evalBool(env, inv.E)
			e.oblige(st, base+"."+inv.Label+".establish", "loop-establish", g, "loop invariant holds on entry: "+inv.Src, fr.fc.Props)
		}
		// havoc loop-carried state
		preGhost := map[string]*Term{}
		for g, t := range st.ghost {
			preGhost[g] = t
		}
		e.havocLoop(st, fr, li, spec)
		// phis get fresh values: pre-assign so the Phi instruction keeps them
		env2 := e.newEnv(st, fr.fc.Pkg)
		env2.fr = fr
		env2.old = st.ghostOld
		e.bindContractVars(env2, fr)
		for _, inv := range spec.Invs {
			st.assume(e.evalBool(env2, inv.E))
		}
		snap := &loopSnap{ghost: map[string]*Term{}}
		for g, t := range st.ghost {
			if pre := preGhost[g]; pre != nil && pre.T == t.T {
				snap.ghost[g] = t // not havocked: the body must leave it alone
			}
		}
		if spec.Decreases != nil {
			snap.variant = e.evalExpr(env2, spec.Decreases).(*Term)
		}
		fr.loopIn[li.Ord] = snap
		// skip the phi instructions (already assigned)
		for fr.idx < len(fr.block.Instrs) {
			if _, ok := fr.block.Instrs[fr.idx].(*ssa.Phi); ok {
				fr.idx++
				continue
			}
			break
		}
		st.path = append(st.path, fmt.Sprintf("L%d", li.Ord))
		if fr.idx == 0 {
			fr.skipEnter = true // no phis were skipped: do not re-enter enterBlock
		}
		return nil, false
	}
	// back edge: preserve
	// evaluate phis with the back-edge values
	for _, instr := range fr.block.Instrs {
		phi, ok := instr.(*ssa.Phi)
		if !ok {
			break
		}
		for i, p := range fr.block.Preds {
			if p == fr.pred {
				fr.regs[phi] = e.eval(st, fr, phi.Edges[i])
				if phi.Comment != "" {
					fr.names[phi.Comment] = fr.regs[phi]
				}
			}
		}
	}
	for _, inv := range spec.Invs {
		g := e.evalBool(env, inv.E)
		e.oblige(st, base+"."+inv.Label+".preserve", "loop-preserve", g, "loop invariant preserved by the body: "+inv.Src, fr.fc.Props)
	}
	if snap := fr.loopIn[li.Ord]; snap != nil {
		// ghost state that was not havocked at the loop head (not in the loop's modifies) must come back unchanged
		for _, gname := range e.W.GhostOrd {
			h, cur := snap.ghost[gname], st.ghost[gname]
			if h == nil || cur == nil || h.T == cur.T {
				continue
			}
			e.oblige(st, base+".frame."+gname, "loop-frame", smtEq(cur.T, h.T), "the loop body leaves ghost state "+gname+" as it was at the loop head (it is not in the loop's modifies)", fr.fc.Props)
		}
	}
	if spec.Decreases != nil && fr.loopIn[li.Ord] != nil && fr.loopIn[li.Ord].variant != nil {
		v := e.evalExpr(env, spec.Decreases).(*Term)
		old := fr.loopIn[li.Ord].variant
		var g string
		if v.S == SInt {
			g = fmt.Sprintf("(and (>= %s 0) (< %s %s))", old.T, v.T, old.T)
		} else {
			if v.Signed && old.Signed {
				// signed variant (Go int): bounded below by 0 and strictly decreasing
				g = fmt.Sprintf("(and (bvsge %s %s) (bvslt %s %s))", old.T, bvLit(0, v.S.BVWidth()), v.T, old.T)
			} else {
				g = fmt.Sprintf("(bvult %s %s)", v.T, old.T)
			}
		}
		e.oblige(st, base+".decreases", "loop-decreases", g, "loop variant strictly decreases (unsigned 64-bit)", fr.fc.Props)
	}
	return []*State{}, true
}

func (e *Engine) evalPhisForNames(st *State, fr *Frame) {
	for _, instr := range fr.block.Instrs {
		phi, ok := instr.(*ssa.Phi)
		if !ok {
			break
		}
		for i, p := range fr.block.Preds {
			if p == fr.pred {
				fr.regs[phi] = e.eval(st, fr, phi.Edges[i])
				if phi.Comment != "" {
					fr.names[phi.Comment] = fr.regs[phi]
				}
			}
		}
	}
}

func (e *Engine) havocLoop(st *State, fr *Frame, li *LoopInfo, spec *LoopSpec) {
	for _, instr := range fr.block.Instrs {
		phi, ok := instr.(*ssa.Phi)
		if !ok {
			break
		}
		nm := phi.Comment
		if nm == "" {
			nm = phi.Name()
		}
		fr.regs[phi] = e.freshVal(st, "loop_"+nm, phi.Type(), 1)
		if phi.Comment != "" {
			fr.names[phi.Comment] = fr.regs[phi]
		}
	}
	// cells written in the loop body
	for b := range li.Body {
		for _, instr := range b.Instrs {
			if s, ok := instr.(*ssa.Store); ok {
				if a, ok := s.Addr.(*ssa.Alloc); ok {
					if p, ok := fr.regs[a].(*PtrV); ok && p.C != nil {
						st.heap[p.C.ID] = e.freshVal(st, "loop_"+a.Comment, a.Type().(*types.Pointer).Elem(), 1)
					}
				} else if fa, ok := s.Addr.(*ssa.FieldAddr); ok {
					if p, ok := fr.regs[fa].(*PtrV); ok && p.C != nil {
						_ = p
					}
				}
			}
		}
	}
	// map iterators advanced in the loop: their visited sets; maps updated in the loop: their contents
	for b := range li.Body {
		for _, instr := range b.Instrs {
			switch x := instr.(type) {
			case *ssa.Next:
				if it, ok := fr.regs[x.Iter].(*MapIter); ok {
					vis := st.heap[it.Visited.ID].(*Term)
					st.heap[it.Visited.ID] = mk(vis.S, e.C.Fresh("visited", vis.S))
				}
			case *ssa.MapUpdate:
				if m, ok := fr.regs[x.Map].(*MapV); ok {
					if ms := e.mapState(st, m); ms != nil {
						st.heap[m.C.ID] = &MapState{Dom: mk(ms.Dom.S, e.C.Fresh("loop_dom", ms.Dom.S)), Val: mk(ms.Val.S, e.C.Fresh("loop_val", ms.Val.S)), T: ms.T}
					}
				} else if mt, isMap := x.Map.Type().Underlying().(*types.Map); isMap {
					// the map is loaded inside the loop (e.g. a struct field): every tracked map of that type may be
					// the one written (type-based aliasing)
					for id, hv := range st.heap {
						if ms, isMS := hv.(*MapState); isMS && ms.T != nil && types.Identical(ms.T, mt) {
							st.heap[id] = &MapState{Dom: mk(ms.Dom.S, e.C.Fresh("loop_dom", ms.Dom.S)), Val: mk(ms.Val.S, e.C.Fresh("loop_val", ms.Val.S)), T: ms.T}
						}
					}
				}
			}
		}
	}
	// ghost state the loop may modify
	mods := spec.Modifies
	if len(mods) == 0 {
		if fr.fc.ModAll {
			mods = e.W.GhostOrd
		} else {
			mods = fr.fc.Modifies
		}
	}
	for _, g := range mods {
		if g == "nothing" {
			// `loop #k modifies nothing`: the loop leaves all ghost state alone (checked: the frame obligation of the
			// function would fail otherwise, since writes inside the body still update the state)
			continue
		}
		st.ghost[g] = e.freshGhost(g)
	}
}

func (e *Engine) nameOf(fr *Frame) string {
	return shortKey(FuncKey(fr.fn))
}

func shortKey(key string) string {
	parts := strings.SplitN(key, "::", 2)
	if len(parts) != 2 {
		return key
	}
	p := parts[0]
	p = strings.TrimPrefix(p, repoModule+"/modules/tibc/")
	return p + "." + parts[1]
}
