package main

// prefix.NewStore returns the concrete type prefix.Store: its methods are static calls on a store handle.

import "golang.org/x/tools/go/ssa"

func init() {
	for _, m := range []string{"Get", "Has", "Set", "Delete", "Iterator", "ReverseIterator"} {
		m := m
		reg("cosmossdk.io/store/prefix::(Store)."+m, "KVStore."+m+" on the prefixed view of the parent store", func(e *Engine, st *State, fr *Frame, a []Val, fn *ssa.Function, c *ssa.CallCommon) ([]Val, []*State) {
			h, ok := a[0].(*StoreHandleV)
			if !ok {
				unsupported("prefix.Store.%s on %s", m, valString(a[0]))
			}
			return e.storeOp(st, fr, h, m, a[1:]), nil
		})
	}
}
