package main

import (
	"strings"
)

// pack(x): an Obj term standing for the value of a transparent struct (or of the struct a pointer points to): an
// uninterpreted function of its flattened fields, so that equal structs are the same object. Used to pass whole
// records (a header, a signer entry) to uninterpreted spec functions.
func (e *Engine) packVal(st *State, v Val) *Term {
	if iv, ok := v.(*IfaceV); ok && iv.Dyn != nil {
		v = iv.V
	}
	if o := opaqueOf(v); o != nil {
		return o
	}
	var sv *StructV
	switch x := v.(type) {
	case *StructV:
		sv = x
	case *PtrV:
		if x.C != nil {
			sv, _ = e.load(st, x, nil).(*StructV)
		}
	}
	if sv == nil {
		unsupported("pack(%s)", valString(v))
	}
	var sorts []Sort
	var as []string
	var walk func(sv *StructV)
	walk = func(sv *StructV) {
		for _, f := range sv.F {
			switch x := f.(type) {
			case *Term:
				s := x.S
				switch s {
				case "NumLit", "Elem", "Global":
					continue
				case "Arr":
					s = SStr
				}
				sorts = append(sorts, s)
				as = append(as, x.T)
			case *StructV:
				walk(x)
			case *PtrV:
				if x.Opaque != nil {
					sorts = append(sorts, "Obj")
					as = append(as, x.Opaque.T)
				} else if x.C != nil {
					if inner, ok := e.load(st, x, nil).(*StructV); ok {
						walk(inner)
					}
				}
			case *SliceV:
				if isByteElem(x.ElemT) {
					sorts = append(sorts, SBytes)
					as = append(as, e.toBytesTerm(st, x).T)
				} else {
					sorts = append(sorts, "Obj")
					as = append(as, e.seqObjCached(st, x).T)
				}
			}
		}
	}
	walk(sv)
	name := "pack_" + typeTag(sv.T)
	e.C.DeclareFun(name, sorts, "Obj")
	pk := mk("Obj", name)
	if len(as) > 0 {
		pk = mk("Obj", "("+name+" "+strings.Join(as, " ")+")")
	}
	if !containsBound(pk.T) {
		e.packViews(st, sv, pk)
	}
	return pk
}
