#!/usr/bin/env python3
"""Regenerates MANIFEST.json from props/*.prop and levels.json (claims) — run after adding a property check."""
import json, os, glob
here = os.path.dirname(os.path.abspath(__file__))
props = [json.loads(l) for l in open(os.path.join(here, 'properties.jsonl'))]
levels = json.load(open(os.path.join(here, 'levels.json')))
claimed = sorted(os.path.basename(p)[:-5] for p in glob.glob(os.path.join(here, 'props', '*.prop')))
hooks_commits = [l.strip() for l in open(os.path.join(here, 'hook_commits.txt')) if l.strip()] if os.path.exists(os.path.join(here, 'hook_commits.txt')) else []
m = {
 "version": 1,
 "setup_cmd": "./setup.sh",
 "hooks": {
  "guard": "verif",
  "enable": "contracts are comment-only files zz_contracts_verif.go with //go:build verif; tibcvc loads /repo with -tags=verif (they add no code)",
  "baseline_off_cmd": "cd /repo && GOFLAGS=-mod=mod GOPROXY=off GOSUMDB=off go test -json -vet=off -count=1 -timeout 25m ./...",
  "source_commits": hooks_commits,
  "add_only": True
 },
 "engines": [{"name": "tibcvc", "path": "engine/", "serves_properties": claimed,
   "kind_free_text": "own verification-condition generator: go/packages + go/ssa symbolic execution of the real function bodies against //@ contracts (requires/ensures/modifies/loop invariants/ghost state/call log), obligations discharged by cvc5 1.0 / z3 5.1 / z3 4.8"}],
 "checks": [], "not_applicable": [],
 "notes": "See DESIGN.md. Known findings: known_findings.json. Self-test corpus: selftest/."
}
for p in props:
    pid = p['id']
    if pid in claimed and pid in levels and levels[pid].get('claim', True):
        lv = levels[pid]
        m['checks'].append({
          "property_id": pid,
          "quick_cmd": f"./bin/tibcvc check {pid} --tier quick",
          "thorough_cmd": f"./bin/tibcvc check {pid} --tier thorough",
          "evidence_file": f"/verif/evidence/{pid}.json",
          "replay_cmd_template": "./bin/tibcvc replay {path}",
          "engine": "tibcvc",
          "level_claimed": {"category": lv.get('category', 'proof'), "text": lv['text'], "design_ref": lv.get('design_ref', f'DESIGN.md §7 {pid}')},
          "level_note": lv['note'],
          "technique": lv.get('technique', 'contract-based deductive verification (own go/ssa VC generator, SMT back ends)')
        })
    else:
        reason = levels.get(pid, {}).get('na_reason', 'check not built yet (see DESIGN.md §11)')
        m['not_applicable'].append({"property_id": pid, "reason": reason})
json.dump(m, open(os.path.join(here, 'MANIFEST.json'), 'w'), indent=1)
print('claimed:', [c['property_id'] for c in m['checks']])
