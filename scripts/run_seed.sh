#!/bin/bash
# run_seed.sh <seed-name> <prop>... : apply the seeded patch to /repo, run the given property checks, undo.
set -u
name=$1; shift
cd /repo || exit 2
if [ -n "$(git status --porcelain)" ]; then echo "/repo not clean"; exit 2; fi
git apply /verif/seeded/$name/patch.diff || { echo "patch does not apply to /repo"; exit 2; }
trap 'git -C /repo checkout -- . ' EXIT
cd /verif
res=""
: > /verif/seeded/$name/detect.txt
for p in "$@"; do
  out=$(VERIF_NO_EVIDENCE=1 ./bin/tibcvc check $p --tier quick 2>&1); rc=$?
  echo "$out" | grep -E "^(VIOLATION|check )" | cut -c1-400
  echo "$out" | grep -E "^(VIOLATION|check )" | sed -E 's/ replay=[^ ]*//' | cut -c1-300 >> /verif/seeded/$name/detect.txt
  res="$res $p:$rc"
done
echo "SEED $name ->$res" | tee -a /verif/seeded/$name/detect.txt
