#!/bin/bash
# reconfirm_seed.sh <seed-name> <prop> <pkgdir> <go-test-run-args...> : confirms a stored seed in a fresh scratch worktree of
# /repo HEAD: (1) the demo fails with the patch, (2) passes without it, (3) the package's other tests and the whole suite pass with it.
set -u
name=$1; prop=$2; pkgdir=$3; shift 3
export GOFLAGS=-mod=mod GOPROXY=off GOSUMDB=off GOTOOLCHAIN=local
sd=/verif/seeded/$name
wt=/tmp/rwt-$name
git -C /repo worktree remove --force $wt 2>/dev/null
git -C /repo worktree add -q --detach $wt HEAD || exit 2
trap 'git -C /repo worktree remove --force '$wt EXIT
cd $wt
demo=$pkgdir/zz_seed_demo_test.go
git apply $sd/patch.diff || { echo "patch does not apply"; exit 2; }
cp $sd/demo_test.go.txt $demo
for extra in $sd/*_helper_test.go.txt; do [ -f "$extra" ] && cp $extra $pkgdir/$(basename ${extra%.txt}); done
out=$sd/confirm.log
echo "== demo WITH change (expect FAIL): go test $* ./$pkgdir" > $out
go test -vet=off -count=1 -timeout 900s ./$pkgdir/ "$@" >> $out 2>&1; r1=$?
git apply -R $sd/patch.diff
echo "== demo WITHOUT change (expect PASS)" >> $out
go test -vet=off -count=1 -timeout 900s ./$pkgdir/ "$@" >> $out 2>&1; r2=$?
git apply $sd/patch.diff
rm -f $demo $pkgdir/*_helper_test.go
echo "== full suite WITH change (expect only TestDecodeStore to fail)" >> $out
go build ./... >> $out 2>&1; rb=$?
go test -vet=off -count=1 -timeout 25m ./... 2>&1 | grep -E '^(FAIL|---|panic)' >> $out
fails=$(sed -n '/== full suite WITH change/,$p' $out | grep -E '^--- FAIL' | grep -v 'TestDecodeStore' | wc -l)
echo "RESULT name=$name demo_with=$r1 demo_without=$r2 build=$rb other_suite_failures=$fails" | tee -a $out
python3 - <<PY
import json
json.dump({"name":"$name","property":"$prop","demo_package":"$pkgdir","demo_with_change_exit":$r1,"demo_without_change_exit":$r2,"build_exit":$rb,"other_suite_failures":$fails,
 "confirmed": ($r1!=0 and $r2==0 and $rb==0 and $fails==0),
 "ran":"reconfirm_seed.sh: go test $* ./$pkgdir with and without patch in a scratch worktree of /repo HEAD; go test ./... with patch (demo removed)"}, open("$sd/meta.json","w"), indent=1)
PY
