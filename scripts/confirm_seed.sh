#!/bin/bash
# confirm_seed.sh <seed-name> <worktree> <property>  : confirms a sub-agent's seeded change in its scratch worktree:
#  (1) demo test fails with the change, (2) passes without it, (3) existing suite passes with the change.
# Then stores it under /verif/seeded/<seed-name>/.
set -u
name=$1; wt=$2; prop=$3
export GOFLAGS=-mod=mod GOPROXY=off GOSUMDB=off GOTOOLCHAIN=local
cd "$wt" || exit 2
demo=$(git status --porcelain | grep -o '[^ ]*zz_seed_demo_test.go' | head -1)
[ -z "$demo" ] && demo=$(find . -name 'zz_seed_demo_test.go' -not -path './_seed/*' | head -1)
pkgdir=$(dirname "$demo")
out=/verif/seeded/$name; mkdir -p $out
cp _seed/patch.diff $out/patch.diff
cp "$demo" $out/demo_test.go.txt
cp _seed/notes.md $out/agent_notes.md 2>/dev/null
# make sure the patch is what is applied
git stash -q -- . ':!_seed' ':!'"$demo" 2>/dev/null; git checkout -q -- . 2>/dev/null
git apply _seed/patch.diff || { echo "patch does not apply"; exit 2; }
echo "== demo WITH change (expect FAIL)" > $out/confirm.log
go test -vet=off -count=1 -timeout 600s -run 'Seed|seed|ZZ' ./$pkgdir/ >> $out/confirm.log 2>&1; r1=$?
git apply -R _seed/patch.diff
echo "== demo WITHOUT change (expect PASS)" >> $out/confirm.log
go test -vet=off -count=1 -timeout 600s -run 'Seed|seed|ZZ' ./$pkgdir/ >> $out/confirm.log 2>&1; r2=$?
git apply _seed/patch.diff
mv "$demo" /tmp/$name.demo.go.txt
echo "== full suite WITH change (expect only TestDecodeStore to fail)" >> $out/confirm.log
go build ./... >> $out/confirm.log 2>&1; rb=$?
go test -vet=off -count=1 -timeout 25m ./... 2>&1 | grep -E '^(FAIL|---|ok|panic)' | grep -v '^ok' >> $out/confirm.log; 
fails=$(grep -E '^--- FAIL' $out/confirm.log | grep -v 'TestDecodeStore' | grep -v -i 'seed' | wc -l)
mv /tmp/$name.demo.go.txt "$demo"
echo "RESULT name=$name demo_with=$r1 demo_without=$r2 build=$rb other_suite_failures=$fails" | tee -a $out/confirm.log
python3 - <<PY
import json
json.dump({"name":"$name","property":"$prop","demo_package":"$pkgdir","demo_with_change_exit":$r1,"demo_without_change_exit":$r2,"build_exit":$rb,"other_suite_failures":$fails,
 "confirmed": ($r1!=0 and $r2==0 and $rb==0 and $fails==0),
 "ran":"confirm_seed.sh: go test -run 'Seed|seed|ZZ' ./$pkgdir with and without patch; go test ./... with patch (demo moved aside)"}, open("$out/meta.json","w"), indent=1)
PY
