#!/bin/bash
# run_all_seeds.sh : every stored seed against the check(s) of its property; results in seeded/<name>/detect.txt
cd /verif
for d in seeded/*/; do
  name=$(basename $d)
  prop=$(python3 -c "import json;print(json.load(open('$d/meta.json'))['property'])" 2>/dev/null)
  [ -z "$prop" ] && continue
  [ -f props/$prop.prop ] || { echo "SEED $name -> no check for $prop"; continue; }
  ./scripts/run_seed.sh $name $prop 2>&1 | tail -1
done
