#!/bin/bash
# selftest.sh [id-prefix] : runs the must-fail corpus selftest/mutants.txt. Each mutant is applied through the loader's
# overlay (tibcvc verify -mutate), never to /repo. A mutant passes the self-test when the expected obligation is NOT
# discharged. Exit 1 if any mutant goes unnoticed.
cd /verif
python3 - "$@" <<'PY'
import sys,subprocess,re
pref=sys.argv[1] if len(sys.argv)>1 else ''
blocks=[];cur=None;key=None
for line in open('/verif/selftest/mutants.txt').read().split('\n'):
    if line.startswith('#'): continue
    m=re.match(r'^(id|prop|verify|file|old|new|expect):(.*)$',line)
    if m:
        key=m.group(1)
        if key=='id':
            cur={};blocks.append(cur)
        v=m.group(2)
        cur[key]=v[1:] if v.startswith(' ') else v
    elif cur is not None and key in('old','new'):
        cur[key]+='\n'+line
for b in blocks:
    for k in ('old','new'):
        b[k]=b[k].rstrip('\n')
import json
known=set(f['obligation'] for f in json.load(open('/verif/known_findings.json'))['findings'])
bad=0
for b in blocks:
    if not b['id'].startswith(pref): continue
    args=['./bin/tibcvc','verify','-timeout','20','-mutate',b['file']+'|||'+b['old']+'|||'+b['new']]+b['verify'].split()
    out=subprocess.run(args,capture_output=True,text=True).stdout
    hit=[l for l in out.split('\n') if re.match(r'^(failed|undischarged|error)\s',l) and b['expect'] in l]
    other=[l for l in out.split('\n') if re.match(r'^(failed|undischarged|error)\s',l) and l.split()[1] not in known]
    if b['expect'].strip()=='NONE':
        if 'loaded in' not in out:
            print('SELFTEST %-34s BROKEN (benign edit does not load): %s'%(b['id'],out[-300:].replace('\n',' ')));bad+=1
        elif other:
            print('SELFTEST %-34s FALSE ALARM on a benign edit: %s'%(b['id'],other[0].split()[1]));bad+=1
        else:
            print('SELFTEST %-34s stays green (benign edit)'%b['id'])
        continue
    if 'loaded in' not in out:
        print('SELFTEST %-34s BROKEN (mutant does not load): %s'%(b['id'],out[-300:].replace('\n',' ')));bad+=1
    elif hit:
        print('SELFTEST %-34s caught   %s'%(b['id'],hit[0].split()[1]))
    elif other:
        print('SELFTEST %-34s caught elsewhere (expected %s): %s'%(b['id'],b['expect'],other[0].split()[1]))
    else:
        print('SELFTEST %-34s MISSED'%b['id']);bad+=1
sys.exit(1 if bad else 0)
PY
