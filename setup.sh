#!/bin/sh
# Build the verifier from files on disk only (offline) and warm the Go build cache for /repo with the
# `verif` tag, so that the first check does not pay the cold package load.
set -e
export GOFLAGS=-mod=mod GOPROXY=off GOSUMDB=off GOTOOLCHAIN=local
cd "$(dirname "$0")/engine"
go build -o ../bin/tibcvc .
cd ..
./bin/tibcvc list > /dev/null
echo "tibcvc built; $(./bin/tibcvc list | wc -l) contracts/lemmas found"
