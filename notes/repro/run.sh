#!/bin/sh
# Throw-away reproductions of the findings listed in DESIGN.md §9 (NOT part of the
# verification machinery). Each <name>.txt is a Go test that is injected into the
# package named on its first line ("// pkg: <dir under /repo>") with `go test -overlay`;
# nothing is written to /repo. Optional second line "// patch-seal" stubs the ethash
# seal in a generated copy of 09-eth/types/header.go.
# usage: ./run.sh <name> [go-test -run pattern]
set -e
export GOFLAGS=-mod=mod GOPROXY=off GOSUMDB=off GOTOOLCHAIN=local
here=$(cd "$(dirname "$0")" && pwd)
f="$here/$1.txt"
pkg=$(sed -n '1s,^// pkg: ,,p' "$f")
tmp=$(mktemp -d)
trap 'rm -rf "$tmp"' EXIT
cp "$f" "$tmp/probe_test.go"
extra=""
if grep -q '^// patch-seal' "$f"; then
  python3 - "$tmp" <<'PY'
import sys
src=open('/repo/modules/tibc/light-clients/09-eth/types/header.go').read()
i=src.index('func verifyCascadingFields(header Header) error {'); j=src.index('\n}\n', i)
open(sys.argv[1]+'/header_patched.go','w').write(src[:i]+'func verifyCascadingFields(header Header) error {\n\t_ = ioutil.Discard\n\t_ = os.Getpid\n\treturn nil'+src[j:])
PY
  extra=", \"/repo/modules/tibc/light-clients/09-eth/types/header.go\": \"$tmp/header_patched.go\""
fi
printf '{"Replace": {"/repo/%s/zz_probe_test.go": "%s/probe_test.go"%s}}\n' "$pkg" "$tmp" "$extra" > "$tmp/ov.json"
# optional: FIX_OVERLAY=<overlay json with candidate fixes> re-runs the probe on the patched tree
if [ -n "$FIX_OVERLAY" ]; then
  python3 -c 'import json,sys; a=json.load(open(sys.argv[1])); b=json.load(open(sys.argv[2])); b["Replace"].update(a["Replace"]); json.dump(b,open(sys.argv[1],"w"))' "$tmp/ov.json" "$FIX_OVERLAY"
fi
cd /repo
go test -overlay "$tmp/ov.json" -vet=off -count=1 -timeout 300s -run "${2:-Probe}" -v "./$pkg/" 2>&1 | grep -E 'zz_probe|^--- |^FAIL|^ok|panic' | cut -c1-400
